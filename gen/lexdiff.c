/* lexdiff.c - differential driver: the SAME file is linked once with flex's real lexer.c
 * (-DREAL) and once with the flattened scanner; the transcripts must be identical.
 * mode "enum N": every string of length <= N over the class representatives (plus a few
 *               extra bytes) in each start condition, one scan each, all in one process.
 * mode "file F...": tokenise whole files (tests/, examples/).
 */
#include <stdio.h>
#include <stdlib.h>
#include <string.h>
#include <stdarg.h>
#include "confuse.h"

extern int cfg_yylex(cfg_t *cfg);
extern void cfg_scan_fp_begin(FILE *fp);
extern void cfg_scan_fp_end(void);
extern char *cfg_yylval;
extern void cfg_yylex_destroy(void);

#ifndef REAL
/* the flattened scanner asks for the text behind a FILE */
char *flat_text_for(FILE *fp)
{
	size_t cap = 256, n = 0, r;
	char *b = malloc(cap);

	while ((r = fread(b + n, 1, cap - n - 1, fp)) > 0) {
		n += r;
		if (cap - n < 2) {
			cap *= 2;
			b = realloc(b, cap);
		}
	}
	b[n] = 0;
	return b; /* leaked on purpose (driver only) */
}
#endif

static void errf(cfg_t *cfg, const char *fmt, va_list ap)
{
	printf("<E:%d:", cfg->line);
	vprintf(fmt, ap);
	printf(">");
}

static void put(const char *s)
{
	for (; s && *s; s++)
		printf("%02x", (unsigned char)*s);
}

static void scan(cfg_t *cfg, const char *text, int maxtok)
{
	FILE *fp = fmemopen((void *)text, strlen(text), "r");
	int i, tok;

	if (!fp) {
		printf("[nofp]\n");
		return;
	}
	cfg->line = 1;
	cfg_scan_fp_begin(fp);
	for (i = 0; i < maxtok; i++) {
		tok = cfg_yylex(cfg);
		printf("[%d:", tok);
		if (tok == CFGT_STR || tok == CFGT_COMMENT)
			put(cfg_yylval);
		else if (tok > 0 && cfg_yylval)
			put(cfg_yylval);
		printf(":%d]", cfg->line);
		if (tok == EOF || tok == 0)
			break;
	}
	cfg_scan_fp_end();
	fclose(fp);
	printf("\n");
}

int main(int argc, char **argv)
{
	cfg_opt_t opts[] = { CFG_END() };
	cfg_t *cfg = cfg_init(opts, 0);
	static const char *prefix[] = { "", "\"", "'", "/*" };

	cfg_set_error_function(cfg, errf);
	setenv("VA", "x\"y", 1);
	setenv("V", "", 1);
	unsetenv("VU");
	if (argc >= 3 && !strcmp(argv[1], "enum")) {
		int N = atoi(argv[2]);
		/* alphabet comes on the command line as hex pairs */
		unsigned char al[64];
		int na = 0, idx[8], len, p, i;
		const char *h = argv[3];

		for (; h[0] && h[1]; h += 2) {
			unsigned v;

			sscanf(h, "%2x", &v);
			al[na++] = (unsigned char)v;
		}
		for (p = 0; p < 4; p++) {
			for (len = 0; len <= N; len++) {
				for (i = 0; i < len; i++)
					idx[i] = 0;
				while (1) {
					char buf[32];
					int k = (int)strlen(prefix[p]);

					strcpy(buf, prefix[p]);
					for (i = 0; i < len; i++)
						buf[k + i] = (char)al[idx[i]];
					buf[k + len] = 0;
					printf("%d.", p);
					put(buf + k);
					printf("=");
					scan(cfg, buf, 8);
					for (i = len - 1; i >= 0; i--) {
						if (++idx[i] < na)
							break;
						idx[i] = 0;
					}
					if (i < 0)
						break;
				}
			}
		}
	} else if (argc >= 3 && !strcmp(argv[1], "file")) {
		int i;

		for (i = 2; i < argc; i++) {
			FILE *f = fopen(argv[i], "r");
			static char buf[1 << 16];
			size_t n;

			if (!f)
				continue;
			n = fread(buf, 1, sizeof(buf) - 1, f);
			buf[n] = 0;
			fclose(f);
			if (strlen(buf) != n)
				continue; /* NUL bytes: outside the flattened model */
			printf("%s=", argv[i]);
			scan(cfg, buf, 100000);
		}
	} else if (argc >= 3 && !strcmp(argv[1], "parse")) {
		/* whole library through cfg_parse(): includes use real files and the source stack */
		int i;

		for (i = 2; i < argc; i++) {
			cfg_opt_t sub[] = { CFG_STR("s", 0, CFGF_NONE), CFG_INT("i", 0, CFGF_NONE), CFG_END() };
			cfg_opt_t o[] = { CFG_STR("s", 0, CFGF_NONE), CFG_INT("i", 0, CFGF_NONE), CFG_SEC("sec", sub, CFGF_MULTI | CFGF_TITLE),
					  CFG_FUNC("include", cfg_include), CFG_END() };
			cfg_t *c = cfg_init(o, CFGF_IGNORE_UNKNOWN);
			int rc;

			cfg_set_error_function(c, errf);
			rc = cfg_parse(c, argv[i]);
			printf("%s: rc=%d line=%d file=%s\n", argv[i], rc, c->line, c->filename ? c->filename : "");
			cfg_print(c, stdout);
			cfg_free(c);
		}
	}
	return 0;
}
