#!/usr/bin/env python3
"""seeded/README.md from seeded/*/meta.json and seeded/matrix.txt (written by gen/seeded_matrix.sh)."""
import json, os, re
root = '/verif/seeded'
res = {}
for l in open(os.path.join(root, 'matrix.txt')):
    m = re.match(r'(\S+) (C\d+) rc=(\d+) violations=(\d+) :: (.*)', l)
    if m:
        # a change may have been run more than once (after a check was strengthened): the last verdict counts
        res.setdefault(m.group(1), {})[m.group(2)] = (m.group(2), int(m.group(3)), int(m.group(4)), m.group(5).strip())
res = {k: list(v.values()) for k, v in res.items()}
out = ["# Seeded changes and the checks that catch them", "",
       "Each directory holds `patch.diff` (apply with `git -C /repo apply`), the author's demonstration (`demo.c`, `run_demo.sh <tree>`), the author's `README.md` and `meta.json` (what it needs to manifest, how I confirmed it).",
       "None of these changes is ever committed to /repo. The table is the output of `gen/seeded_matrix.sh` (quick tier).", "",
       "| change | breaks | needs to manifest | suite with change | demo clean/changed | check verdicts (quick) | first failing assertion |", "|---|---|---|---|---|---|---|"]
for d in sorted(os.listdir(root)):
    mp = os.path.join(root, d, 'meta.json')
    if not os.path.exists(mp):
        continue
    m = json.load(open(mp))
    c = m['confirmed_by_me']
    v = res.get(d, [])
    verd = "; ".join("%s: %s" % (p, "VIOLATION x%d" % n if rc == 1 else ("exit %d" % rc)) for p, rc, n, _ in v) or "not run"
    first = next((a for _, rc, n, a in v if rc == 1), "")
    first = re.sub(r"^\d+\s+", "", first)[:140]
    out.append("| %s | %s | %s | %s | %s / %s | %s | %s |" % (d, m['change'], m['needs_to_manifest'], c['suite_with_change'], c['clean_tree_demo_exit'], c['demo_exit_with_change'], verd, first.replace("|", "/")))
caught = sum(1 for d, v in res.items() if any(rc == 1 for _, rc, _, _ in v))
own = sum(1 for d, v in res.items() if any(rc == 1 and p == d.split('-')[0] for p, rc, _, _ in v))
out += ["", "%d of %d seeded changes are reported as VIOLATION by at least one quick check; %d of them by the check of the property they attack." % (caught, len(res), own)]
open(os.path.join(root, 'README.md'), 'w').write("\n".join(out) + "\n")
print(out[-1])
