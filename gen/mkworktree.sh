#!/bin/sh
# mkworktree.sh <dir>: scratch git worktree of /repo HEAD plus /repo's untracked build files, ready for `make check`
set -e
d="$1"
git -C /repo worktree add --detach "$d" HEAD >/dev/null 2>&1
rsync -a --ignore-existing --exclude .git --exclude '*.o' --exclude '*.lo' --exclude '*.la' --exclude '.libs' --exclude '*.log' --exclude '*.trs' /repo/ "$d"/
# drop stale test binaries/wrappers copied from /repo so they are rebuilt against this tree
for t in "$d"/tests/*.c; do b="${t%.c}"; rm -f "$b"; done
rm -f "$d"/src/lexer.c
find "$d" -name '*.Plo' -o -name '*.Po' | xargs -r sed -i 's/.*//' 2>/dev/null || true
