#!/usr/bin/env python3
"""Build /verif/seeded/<id>/ from the sub-agents' deliveries under /tmp/mut plus my confirmation runs."""
import json, os, shutil, re
NEEDS = {
 "C01-a": ("stale list-element counter: num_values reset moved from the start of a list assignment to its closing brace", "a list option given one unbraced value (or a braced list with trailing comma) and later, in the same block, 'm = {}' on a list that holds values"),
 "C01-b": ("title lookup in cfg_setopt() replaced by a helper that tests the option's NOCASE flag instead of the context's", "CFGF_NOCASE context + titled multi section + a title repeated in different letter case"),
 "C02-a": ("<dq_str> catch-all rule turned into a run rule that excludes '$' without adding a rule for a bare '$'", "a double-quoted string with a '$' that does not start a complete ${...}: the byte is echoed to stdout and dropped"),
 "C02-b": ("free of the pending annotation moved into the ignore-unknown branch without clearing the pointer", "CFGF_COMMENTS and CFGF_IGNORE_UNKNOWN together, a comment directly before an undeclared option"),
 "C03-a": ("<sq_str><<EOF>> error merged into the generic <<EOF>> rule's no-include branch", "an included file that ends inside a single-quoted string"),
 "C03-b": ("\"${NAME:-default}\" uses the default also for a variable that is set but empty (double-quoted rule only)", "variable set to the empty string + :-default form + double quotes"),
 "C04-a": ("digit check after strtol() compares endptr with value instead of int_str", "exactly the tokens '0x' or '0b'"),
 "C04-b": ("errno = 0 before strtod() dropped", "ambient errno == ERANGE when a float token is converted (e.g. through the string setters after a failed range check)"),
 "C05-a": ("string start/end rules routed through qbeg()/qend(): token pointer captured before the terminating qputc()", "a string whose decoded length equals the scratch buffer capacity (multiple of 32), so the terminator reallocs"),
 "C05-b": ("'comment out if unset' test hoisted above the list/scalar branch", "a list option with a non-empty default that has been emptied: printed as '# name = {}' and the re-parse restores the default"),
 "C06-a": ("<comment> rule '\"*\"+[^*/\\n]*' lost the \\n exclusion", "a multi-line /* */ comment with a '*' before one of its newlines, then any diagnostic"),
 "C06-b": ("section validation callback called before the section's last line is copied back", "a multi-line section rejected by its validation callback: reported on the line of '{'"),
 "C07-a": ("<<EOF>> rule no longer restores the include counter when the exhausted source is not an include", "an include() whose file creates a section with a parsed list default (nested scan inside an include)"),
 "C07-b": ("call_function() returns early when the callback fails", "a complete function call whose callback returns non-zero: the argv vector leaks"),
 "C08-a": ("BEGIN(INITIAL) moved from cfg_scan_fp_begin() to the EOF rules", "a parse aborted by a bad escape inside a double-quoted string, then another parse without freeing the root"),
 "C08-b": ("include slot claimed before the file is opened, not returned on the failure exits", "includes of missing files: each permanently consumes one of the 10 slots"),
 "C09-a": ("default-reset in cfg_opt_getval() hoisted above the index check", "a typed setter with index > 0 on a scalar that still holds its pristine default"),
 "C09-b": ("tail memmove in cfg_opt_rmnsec() replaced by a loop with an index slip", "removal of a section that has two or more sections behind it"),
 "C10-a": ("cfg_setopt() clears CFGF_RESET before cfg_free_value(), which then frees the annotation", "refused cfg_setmulti() on an annotated option that still holds its defaults"),
 "C10-b": ("illegal-index check of cfg_opt_getval() moved to the grow path, after the default reset", "refused indexed setter on a pristine-default scalar"),
 "C11-a": ("per-step locals of cfg_getopt_secidx() moved to function scope, index reset only once", "an unresolvable step at depth >= 2 after a step that selected instance 0"),
 "C11-b": ("parse_title() escape check looks at the backslash itself", "a quoted qualifier with a backslash before an ordinary character"),
 "C12-a": ("(ported to the repaired skipper as a2) end of a call inside a skipped section drops to state 0", "ignore-unknown + unknown section containing an unknown function call"),
 "C12-b": ("(ported as b2) unknown name no longer resets the current option", "ignore-unknown + deprecated option directly followed by an undeclared item: repeated 'deprecated' diagnostics"),
 "C12-a2": ("state 13 goes to 'next item' only when the closing token was '}'", "ignore-unknown + unknown section containing an unknown function call"),
 "C12-b2": ("lookup result kept in a separate local, opt only assigned on success", "ignore-unknown + deprecated option directly followed by an undeclared item"),
 "C13-a": ("include slot claimed up front; fopen() failure path does not give it back", "includes that fail in fopen(), then a deep include chain"),
 "C13-b": ("section->path hookup moved from the parser into the section-creating branch of cfg_setopt()", "search path + include() with a relative name inside a non-MULTI section"),
 "C14-a": ("cfg_getopt_array() prefers an existing instance also for MULTI sections", "callback registered by path after an instance of the multi section exists, then another instance parsed"),
 "C14-b": ("list elements no longer validated when stored (only at the closing brace)", "a list with a validation callback and a rejected element followed by a trailing comma / later elements"),
 "C15-a": ("comment terminator rule '[ \\t]*\"*\"+\"/\"' simplified to '[ \\t]*\"*/\"'", "a comment closed by '**/'"),
 "C15-b": ("annotation attached only when num_values == 0", "CFGF_COMMENTS + annotated scalar after a non-empty list in the same block"),
 "C16-a": ("cfg_setopt() replace path no longer clears the borrowed search path before cfg_free()", "search path + titled multi section + a repeated title"),
 "C16-b": ("pointer-clearing pass of cfg_dupopt_array() merged into the copy loop", "an allocation failure inside the copy at a non-name allocation of a non-last option"),
 "C17-a": ("cfg_add_searchpath() skips a directory that 'is already listed' using a prefix comparison", "two directories where the earlier one is a textual prefix of the later one"),
 "C17-b": ("section->path hookup moved into section creation (non-MULTI sections are created before any search path exists)", "search path + include() inside a non-MULTI section"),
 "C18-a": ("pointer-clearing pass of cfg_dupopt_array() merged into the copy loop", "k-th allocation failing inside cfg_dupopt_array(): the caller's declarations are freed"),
 "C18-b": ("cfg_opt_setnstr() frees the old string before strdup() of the new one", "the setter's strdup() failing while replacing an explicitly set string"),
 "C19-a": ("sections copy the parent's print filter when they are created", "filter installed, sections created, filter changed, print"),
 "C19-b": ("print callback honoured only for list element 0", "list option with a print callback and >= 2 values"),
}
conf = {}
for l in open('/tmp/mut/confirm.txt'):
    m = re.match(r'(\S+) clean_demo_rc=(\S+) suite_pass=(\S*) suite_fail=(\S*) mutated_demo_rc=(\S+)', l)
    if m: conf[m.group(1)] = dict(clean_demo_rc=m.group(2), suite_pass=m.group(3), suite_fail=m.group(4), mutated_demo_rc=m.group(5))
os.makedirs('/verif/seeded', exist_ok=True)
for key,(what,needs) in sorted(NEEDS.items()):
    pid, var = key.split('-')
    src = '/tmp/mut/%s/%s' % (pid, var)
    if not os.path.exists(src + '/patch.diff'): continue
    if key in ("C12-a", "C12-b"):
        continue  # superseded by the ported versions (the originals no longer apply to the repaired skipper)
    dst = '/verif/seeded/' + key
    os.makedirs(dst, exist_ok=True)
    base = src if os.path.exists(src + '/demo.c') else '/tmp/mut/%s/%s' % (pid, var[0])
    for f in ('demo.c', 'run_demo.sh', 'README.md'):
        if os.path.exists(base + '/' + f): shutil.copy(base + '/' + f, dst + '/' + f)
    shutil.copy(src + '/patch.diff', dst + '/patch.diff')
    c = conf.get(key, {})
    meta = {"property": pid, "change": what, "needs_to_manifest": needs,
            "origin": "independent sub-agent with its own scratch worktree and only the property text" + (" (patch re-ported by hand onto the repaired skipper)" if var.endswith('2') else ""),
            "confirmed_by_me": {"how": "scratch worktree of /repo HEAD (gen/mkworktree.sh): run_demo.sh on the clean tree, git apply patch.diff, make && make check, run_demo.sh again; worktree removed afterwards",
                                 "clean_tree_demo_exit": c.get("clean_demo_rc"), "suite_with_change": "%s passed / %s failed" % (c.get("suite_pass"), c.get("suite_fail")),
                                 "demo_exit_with_change": c.get("mutated_demo_rc")},
            "also_run": {"C09-a": ["C10"], "C16-a": ["C07"], "C16-b": ["C18"], "C17-b": ["C13"], "C13-b": ["C17"], "C03-a": ["C13"], "C07-a": ["C13"], "C05-a": ["C03"], "C05-b": ["C19"], "C02-b": ["C07"]}.get(key, [])}
    json.dump(meta, open(dst + '/meta.json', 'w'), indent=1)
print(sorted(os.listdir('/verif/seeded')))
