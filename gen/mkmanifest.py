#!/usr/bin/env python3
"""Regenerate MANIFEST.json from props/*.py (each exports MANIFEST = dict(...)) - keeps it valid at all times."""
import importlib
import json
import os
import sys

VERIF = os.path.dirname(os.path.dirname(os.path.abspath(__file__)))
sys.path.insert(0, VERIF)
sys.path.insert(0, os.path.join(VERIF, "run"))
props = [json.loads(l) for l in open(os.path.join(VERIF, "properties.jsonl"))]
checks = []
na = []
NA_REASONS = {}
try:
    NA_REASONS = json.load(open(os.path.join(VERIF, "gen", "not_applicable.json")))
except Exception:
    pass
for p in props:
    pid = p["id"]
    try:
        mod = importlib.import_module("props." + pid)
        meta = getattr(mod, "MANIFEST")
    except Exception as e:
        na.append({"property_id": pid, "reason": NA_REASONS.get(pid, "check not built yet (work in progress)")})
        continue
    checks.append({
        "property_id": pid,
        "quick_cmd": "bin/check %s --tier quick" % pid,
        "thorough_cmd": "bin/check %s --tier thorough" % pid,
        "evidence_file": "/verif/evidence/%s.json" % pid,
        "replay_cmd_template": "bin/check %s --replay {path}" % pid,
        "engine": "cbmc-obligations",
        "level_claimed": {"category": "model_checking", "text": meta["text"], "design_ref": "DESIGN.md section 4, " + pid},
        "level_note": meta["note"],
        "technique": meta.get("technique", "bounded symbolic execution of the real C source with CBMC 6.11 (SAT), one query per proof obligation, symbolic data / concrete control, native ASan replay of counterexamples"),
    })
m = {
    "version": 1,
    "setup_cmd": "true",
    "hooks": {
        "guard": "LIBCONFUSE_VERIF",
        "enable": "harnesses #include /repo/src/confuse.c verbatim with -DLIBCONFUSE_VERIF and supply LIBCONFUSE_VERIF_PARSE_STEP(); no separate build of /repo is needed",
        "baseline_off_cmd": "cd /repo && make -j8 >/dev/null && make check",
        "source_commits": ["ff1e952"],
        "add_only": True,
    },
    "engines": [{"name": "cbmc-obligations", "path": "run/runner.py",
                 "serves_properties": [c["property_id"] for c in checks],
                 "kind_free_text": "parallel driver for CBMC 6.11 queries over harnesses that include the real sources; witnesses, unwinding assertions, trace extraction, native ASan/UBSan replay, known-findings matching, evidence"}],
    "checks": checks,
    "notes": "All checks are bounded (model_checking level = SAT verdict over all values inside the stated bounds; nothing is claimed outside them). Exit 0 = held, 1 = VIOLATION line, 2 = inconclusive (time-out, vacuous obligation, or counterexample that did not replay natively).",
    "not_applicable": na,
}
json.dump(m, open(os.path.join(VERIF, "MANIFEST.json"), "w"), indent=1)
print("checks:", [c["property_id"] for c in checks], "n/a:", [n["property_id"] for n in na])
