#!/bin/sh
# runmut.sh <patch.diff> <Cxx> [<Cyy>...]: apply a seeded change to /repo, run the given quick checks, restore /repo.
p="$1"; shift
cd /repo || exit 2
if ! git diff --quiet; then echo "/repo has local changes, refusing"; exit 2; fi
if git apply --check "$p" 2>/dev/null; then git apply "$p"; else patch -p1 -F3 -s < "$p" || { git checkout -- .; echo "PATCH DOES NOT APPLY"; exit 2; }; fi
cd /verif
for c in "$@"; do
  out=$(bin/check "$c" --tier quick 2>&1); rc=$?
  echo "== $c rc=$rc: $(echo "$out" | grep -c '^VIOLATION') violation line(s); $(echo "$out" | tail -1)"
  echo "$out" | grep -A1 '^VIOLATION' | grep 'assertion=' | sed 's/^ */   /' | sort | uniq -c | sort -rn | head -4
done
cd /repo && git checkout -- . && find . -name '*.orig' -newer /verif/gen/runmut.sh -delete 2>/dev/null
git status --short | grep -v insert-header
