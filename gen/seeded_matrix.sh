#!/bin/bash
# seeded_matrix.sh: run the quick check of the attacked property (plus listed neighbours) against every seeded
# change, on a scratch worktree of /repo (VERIF_REPO) so that /repo itself is never modified; evidence and
# replays of these experiment runs go to a scratch directory (VERIF_OUT).
# Usage: gen/seeded_matrix.sh [id ...]   (default: all under /verif/seeded)
cd /verif
OUT=/verif/seeded/matrix.txt
WT=$(mktemp -d /tmp/mxwt.XXXX); rmdir $WT; /verif/gen/mkworktree.sh $WT || exit 2
export VERIF_REPO=$WT VERIF_OUT=$(mktemp -d /tmp/mxout.XXXX) VERIF_JOBS=${VERIF_JOBS:-8}
[ $# -eq 0 ] && : > $OUT
ids="$@"; [ -z "$ids" ] && ids=$(ls seeded | grep -E '^C[0-9]+-')
for id in $ids; do
  d=/verif/seeded/$id
  prop=$(python3 -c "import json;print(json.load(open('$d/meta.json'))['property'])")
  extra=$(python3 -c "import json;print(' '.join(json.load(open('$d/meta.json')).get('also_run',[])))")
  [ -n "$NOEXTRA" ] && extra=""
  if git -C $WT apply --check $d/patch.diff 2>/dev/null; then git -C $WT apply $d/patch.diff; else echo "$id PATCH-DOES-NOT-APPLY" >> $OUT; continue; fi
  for p in $prop $extra; do
    o=$(bin/check $p --tier quick 2>&1); rc=$?
    echo "$id $p rc=$rc violations=$(echo "$o" | grep -c '^VIOLATION') :: $(echo "$o" | grep -A1 '^VIOLATION' | grep assertion= | sed 's/.*assertion=//' | sort | uniq -c | sort -rn | head -2 | tr '\n' ' ' | cut -c1-300)" >> $OUT
  done
  git -C $WT checkout -- .
done
echo DONE >> $OUT
git -C /repo worktree remove --force $WT; rm -rf $VERIF_OUT
