#!/bin/bash
# runall.sh [tier]: every registered check once on /repo as it is; evidence files are rewritten by the checks.
tier=${1:-quick}
cd /verif
for i in 01 02 03 04 05 06 07 08 09 10 11 12 13 14 15 16 17 18 19; do
  s=$(date +%s); o=$(bin/check C$i --tier $tier 2>&1); rc=$?; e=$(date +%s)
  echo "C$i rc=$rc $((e-s))s :: $(echo "$o" | tail -1)"
  echo "$o" | grep -E "^(VIOLATION|INCONCLUSIVE|UNCONFIRMED|VACUOUS)" | head -5
done
