#!/usr/bin/env python3
"""Parallel CBMC obligation runner for /verif (see DESIGN.md section 3).

An obligation = one cbmc query over a harness that #includes the real source from /repo.
Verdict rules (per cbmc property inside the query):
  * description starts with "WITNESS"  -> must be FAILURE (reachability); SUCCESS => vacuous
  * unwinding assertions                -> FAILURE => bound too small: inconclusive, or a
                                           violation when the obligation says termination
                                           within the bound is part of the claim
  * everything else                     -> must be SUCCESS; FAILURE => counterexample, which
                                           is traced, replayed natively and matched against
                                           known_findings.txt
Time-outs / memory-outs / tool errors are INCONCLUSIVE (exit 2), never success.
"""
import concurrent.futures as cf
import hashlib
import json
import os
import re
import resource
import shutil
import signal
import subprocess
import sys
import tempfile
import time

VERIF = os.path.dirname(os.path.dirname(os.path.abspath(__file__)))
REPO = os.environ.get("VERIF_REPO", "/repo")
JOBS = int(os.environ.get("VERIF_JOBS", "14"))
# evidence/ and replays/ normally live in /verif; experiments against scratch copies of the repository
# (VERIF_REPO) redirect them so that they do not overwrite the evidence of the registered checks
OUTDIR = os.environ.get("VERIF_OUT", VERIF)

COMMON_DEFS = [
    "-DHAVE_CONFIG_H", "-D__NO_CTYPE", "-D_GNU_SOURCE", "-DLOCALEDIR=\"/x\"",
    "-DLIBCONFUSE_VERIF",
]


def common_includes(scratch):
    return ["-I" + os.path.join(VERIF, "stubs"), "-I" + os.path.join(VERIF, "harness"),
            "-I" + scratch, "-I" + REPO, "-I" + os.path.join(REPO, "src")]


class Ob:
    """One proof obligation."""

    def __init__(self, key, harness, defs=(), unwind=8, unwindset=(), flags=(), timeout=None,
                 mem_gb=8, unwind_is_violation=False, checks="std", family="", params=None,
                 need_witness=True, replay="native", extra_sources=(), note="",
                 must_reach=("end of harness",)):
        self.key = key
        self.harness = harness
        self.defs = list(defs)
        self.unwind = unwind
        self.unwindset = list(unwindset)
        self.flags = list(flags)
        self.timeout = timeout
        self.mem_gb = mem_gb
        self.unwind_is_violation = unwind_is_violation
        self.checks = checks  # "std" | "none" | "full" | "leak"
        self.family = family
        self.params = params or {}
        self.need_witness = need_witness
        self.replay = replay  # "native" | "none"
        self.extra_sources = list(extra_sources)
        self.note = note
        self.must_reach = tuple(must_reach)


def _limit(mem_gb):
    def f():
        os.setsid()
        b = int(mem_gb * (1 << 30))
        resource.setrlimit(resource.RLIMIT_AS, (b, b))
    return f


def cbmc_cmd(ob, scratch, extra=()):
    src = [ob.harness if os.path.isabs(ob.harness) else os.path.join(VERIF, "harness", ob.harness)]
    for s in ob.extra_sources:
        src.append(s if os.path.isabs(s) else os.path.join(scratch, s))
    cmd = ["cbmc"] + src + common_includes(scratch) + COMMON_DEFS + ob.defs
    cmd += ["--unwind", str(ob.unwind), "--unwinding-assertions", "--drop-unused-functions",
            "--no-malloc-may-fail", "--json-ui", "--verbosity", "8"]
    if ob.unwindset:
        cmd += ["--unwindset", ",".join(ob.unwindset)]
    if ob.checks == "none":
        cmd += ["--no-standard-checks"]
    elif ob.checks == "full":
        cmd += ["--pointer-overflow-check", "--signed-overflow-check", "--undefined-shift-check"]
    elif ob.checks == "leak":
        cmd += ["--memory-leak-check"]
    elif ob.checks == "fullleak":
        cmd += ["--pointer-overflow-check", "--signed-overflow-check", "--undefined-shift-check",
                "--memory-leak-check"]
    cmd += ob.flags
    cmd += list(extra)
    return cmd


def run_cmd(cmd, timeout, mem_gb, cwd):
    t0 = time.time()
    try:
        p = subprocess.Popen(cmd, stdout=subprocess.PIPE, stderr=subprocess.PIPE, cwd=cwd,
                             preexec_fn=_limit(mem_gb))
        try:
            out, err = p.communicate(timeout=timeout)
            rc = p.returncode
            to = False
        except subprocess.TimeoutExpired:
            try:
                os.killpg(p.pid, signal.SIGKILL)
            except Exception:
                p.kill()
            out, err = p.communicate()
            rc = -9
            to = True
    except Exception as e:  # pragma: no cover
        return -1, b"", str(e).encode(), time.time() - t0, False
    return rc, out, err, time.time() - t0, to


def parse_json_ui(out):
    """Return (results, messages, error_text). results = list of dict(property, description, status)."""
    try:
        data = json.loads(out.decode("utf-8", "replace"))
    except Exception:
        return None, [], "unparsable cbmc output"
    results = None
    errors = []
    for el in data:
        if not isinstance(el, dict):
            continue
        if "result" in el:
            results = el["result"]
        if el.get("messageType") == "ERROR":
            errors.append(el.get("messageText", ""))
    return results, data, "\n".join(errors)


def solver_time_from(data):
    t = 0.0
    for el in data:
        if isinstance(el, dict) and el.get("messageType") == "STATUS-MESSAGE":
            m = re.search(r"Runtime (?:decision procedure|Solver): ([0-9.]+)s", el.get("messageText", ""))
            if m:
                t += float(m.group(1))
    return t


def vccs_from(data):
    for el in data:
        if isinstance(el, dict) and el.get("messageType") == "STATUS-MESSAGE":
            m = re.search(r"Generated (\d+) VCC\(s\), (\d+) remaining", el.get("messageText", ""))
            if m:
                return int(m.group(1)), int(m.group(2))
    return None, None


def extract_inputs(trace):
    """Pull vin_* assignments out of a json-ui trace.  `name` holds the last value; an input that is
    assigned several times (declared inside a loop) additionally gets `name#k` for its k-th value, which
    the native v_get() hands out call by call."""
    vals = {}
    seq = {}
    for st in trace:
        if st.get("stepType") != "assignment":
            continue
        lhs = st.get("lhs", "")
        if "vin_" not in lhs:
            continue
        v = st.get("value", {})
        name = lhs
        name = re.sub(r"\[(\d+)[a-zA-Z]*\]", r"[\1]", name)
        if "elements" in v:  # whole-array assignment
            for i, e in enumerate(v["elements"]):
                ev = e.get("value", {})
                iv = _val(ev)
                if iv is not None:
                    vals["%s[%d]" % (name, i)] = iv
            continue
        iv = _val(v)
        if iv is not None:
            vals[name] = iv
            if "[" not in name and not st.get("hidden"):  # hidden = the zero-initialisation of the declaration
                seq.setdefault(name, []).append(iv)
    for name, lst in seq.items():
        if len(lst) > 1:
            for k, iv in enumerate(lst):
                vals["%s#%d" % (name, k)] = iv
    return vals


def _val(v):
    if "binary" in v and v.get("name") in ("integer", "float", None) or ("binary" in v and "data" in v):
        b = v["binary"]
        try:
            width = len(b)
            n = int(b, 2)
            t = v.get("type", "")
            if v.get("name") == "float":
                return n  # raw bits
            signed = not ("unsigned" in t or t in ("_Bool", "bool"))
            if v.get("name") == "integer" and signed and width > 1 and b[0] == "1":
                n -= (1 << width)
            return n
        except Exception:
            pass
    d = v.get("data")
    if d is None:
        return None
    if d in ("TRUE", "true"):
        return 1
    if d in ("FALSE", "false"):
        return 0
    try:
        return int(str(d).rstrip("ulUL"), 0)
    except Exception:
        return None


class Result:
    def __init__(self, ob):
        self.ob = ob
        self.status = "?"  # discharged | violated | vacuous | inconclusive
        self.wall = 0.0
        self.solver_s = 0.0
        self.vccs = None
        self.nprops = 0
        self.failed = []  # list of dict(property, description)
        self.witness_ok = 0
        self.witness_missing = []
        self.witness_reached = []
        self.reason = ""
        self.rss_kb = 0
        self.unwind_fail = []


def check_one(ob, scratch, default_timeout):
    r = Result(ob)
    timeout = ob.timeout or default_timeout
    cmd = ["/usr/bin/time", "-f", "RSSKB=%M"] + cbmc_cmd(ob, scratch)
    rc, out, err, wall, to = run_cmd(cmd, timeout, ob.mem_gb, scratch)
    r.wall = wall
    m = re.search(rb"RSSKB=(\d+)", err)
    if m:
        r.rss_kb = int(m.group(1))
    if to:
        r.status = "inconclusive"
        r.reason = "timeout after %ds" % timeout
        return r
    results, data, errtxt = parse_json_ui(out)
    if results is None:
        r.status = "inconclusive"
        tail = (errtxt or err.decode("utf-8", "replace"))[-600:]
        r.reason = "cbmc gave no result (rc=%s): %s" % (rc, tail.strip())
        return r
    r.solver_s = solver_time_from(data)
    r.vccs = vccs_from(data)[0]
    r.nprops = len(results)
    for p in results:
        desc = p.get("description", "")
        st = p.get("status")
        if desc.startswith("WITNESS"):
            if st == "FAILURE":
                r.witness_ok += 1
                r.witness_reached.append(desc)
            else:
                r.witness_missing.append(desc)
            continue
        if st == "SUCCESS":
            continue
        if "unwinding assertion" in desc or ".unwind." in p.get("property", ""):
            r.unwind_fail.append(p.get("property", ""))
            if ob.unwind_is_violation:
                r.failed.append({"property": p.get("property"), "description": "termination bound exceeded: " + desc})
            continue
        if st == "FAILURE":
            r.failed.append({"property": p.get("property"), "description": desc,
                             "loc": (p.get("sourceLocation") or {}).get("function", "")})
        else:
            r.status = "inconclusive"
            r.reason = "property %s status %s" % (p.get("property"), st)
    if r.failed:
        r.status = "violated"
    elif r.status == "inconclusive":
        pass
    elif r.unwind_fail:
        r.status = "inconclusive"
        r.reason = "unwinding bound too small: " + ",".join(r.unwind_fail[:4])
    elif (ob.need_witness and r.witness_ok == 0) or not all(
            any(m in w for w in r.witness_reached) or not any(m in w for w in r.witness_missing) for m in ob.must_reach) or (
            ob.must_reach and not any(any(m in w for w in r.witness_reached) for m in ob.must_reach)):
        r.status = "vacuous"
        r.reason = "witness not reachable: " + "; ".join(r.witness_missing[:3])
    else:
        r.status = "discharged"
    return r


def get_trace(ob, scratch, prop, timeout):
    cmd = cbmc_cmd(ob, scratch, ["--trace", "--property", prop])
    rc, out, err, wall, to = run_cmd(cmd, timeout, ob.mem_gb, scratch)
    if to:
        return None
    results, data, errtxt = parse_json_ui(out)
    if not results:
        return None
    for p in results:
        if p.get("property") == prop and "trace" in p:
            return p["trace"]
    return None


NATIVE_CFLAGS = ["-g", "-O0", "-fsanitize=address,undefined", "-fno-sanitize-recover=undefined",
                 "-fno-omit-frame-pointer", "-w"]


def native_replay(ob, scratch, inputs, tag):
    """Compile the same harness natively (real libc, ASan/UBSan) and run it on the solver's inputs.
    Returns (verdict, detail): verdict in reproduced / not_reproduced / unavailable."""
    exe = os.path.join(scratch, "replay_" + hashlib.md5((ob.key + tag).encode()).hexdigest()[:10])
    src = [ob.harness if os.path.isabs(ob.harness) else os.path.join(VERIF, "harness", ob.harness)]
    for s in ob.extra_sources:
        src.append(s if os.path.isabs(s) else os.path.join(scratch, s))
    defs = [d for d in (COMMON_DEFS + ob.defs) if d != "-D__NO_CTYPE"]
    cmd = ["gcc"] + NATIVE_CFLAGS + defs + common_includes(scratch) + src + [os.path.join(VERIF, "stubs", "weak_lexer.c"), "-o", exe]
    p = subprocess.run(cmd, stdout=subprocess.PIPE, stderr=subprocess.PIPE, cwd=scratch)
    if p.returncode != 0:
        return "unavailable", "native build failed: " + p.stderr.decode("utf-8", "replace")[-400:]
    vf = exe + ".in"
    with open(vf, "w") as f:
        for k, v in inputs.items():
            f.write("%s %d\n" % (k, v))
    env = dict(os.environ)
    env["VERIF_REPLAY"] = vf
    env["ASAN_OPTIONS"] = "detect_leaks=%d:abort_on_error=0:exitcode=23" % (1 if ob.checks in ("leak", "fullleak") else 0)
    env["UBSAN_OPTIONS"] = "halt_on_error=1:exitcode=24"
    try:
        q = subprocess.run([exe], stdout=subprocess.PIPE, stderr=subprocess.PIPE, env=env, timeout=20, cwd=scratch)
        rc = q.returncode
        txt = q.stderr.decode("utf-8", "replace")
    except subprocess.TimeoutExpired:
        return "reproduced", "native run did not terminate within 20 s (hang)"
    if rc == 0:
        return "not_reproduced", "native run passed"
    if rc == 77:
        return "not_reproduced", "native run left the assumed region: " + txt[-300:]
    return "reproduced", "native exit %d: %s" % (rc, txt.strip()[-500:])


def load_known(prop_id):
    kn = []
    path = os.path.join(VERIF, "known_findings.txt")
    if not os.path.exists(path):
        return kn
    for line in open(path):
        line = line.strip()
        if not line.startswith("finding:"):
            continue
        f = {}
        rest = line[len("finding:"):].strip()
        m = re.match(r"property=(\S+)\s+obligation=(\S+)\s+assertion=\"([^\"]*)\"\s*(.*)", rest)
        if not m:
            continue
        f = {"property": m.group(1), "obligation": m.group(2), "assertion": m.group(3), "what": m.group(4)}
        if f["property"] == prop_id:
            kn.append(f)
    return kn


def match_known(known, ob, desc):
    for f in known:
        if re.fullmatch(f["obligation"], ob.key) and f["assertion"] in desc:
            return f
    return None


def make_scratch():
    base = os.environ.get("VERIF_TMP") or tempfile.gettempdir()
    return tempfile.mkdtemp(prefix="verif.", dir=base)


def run_property(prop_id, obligations, tier, level="model_checking", assumptions=(), functions=(),
                 bounds="", scratch=None, prebuilt_note="", seed=0, extra_coverage=None, keep=False):
    t0 = time.time()
    own = scratch is None
    if own:
        scratch = make_scratch()
    default_timeout = 400 if tier == "quick" else 1200
    known = load_known(prop_id)
    results = []
    try:
        with cf.ThreadPoolExecutor(max_workers=JOBS) as ex:
            futs = {ex.submit(check_one, ob, scratch, default_timeout): ob for ob in obligations}
            for fu in cf.as_completed(futs):
                results.append(fu.result())
        results.sort(key=lambda r: r.ob.key)

        violations = []  # (ob, desc, replay_path)
        known_hits = []
        unconfirmed = []
        replays_dir = os.path.join(OUTDIR, "replays")
        traces_validated = 0
        todo = []
        for r in results:
            if r.status != "violated":
                continue
            new_failed = []
            for f in r.failed:
                k = match_known(known, r.ob, f["description"])
                if k:
                    known_hits.append((r.ob, f, k))
                else:
                    new_failed.append(f)
            if not new_failed:
                r.status = "known-finding"
                continue
            todo.extend((r, f) for f in new_failed[:2])

        # trace + native replay of the first few unexpected failures of each obligation (in parallel)
        def _replay(rf):
            r, f = rf
            os.makedirs(replays_dir, exist_ok=True)
            tag = re.sub(r"[^A-Za-z0-9_.-]", "_", "%s-%s-%s" % (prop_id, r.ob.key, f["property"]))
            rp = os.path.join(replays_dir, tag + ".json")
            trace = get_trace(r.ob, scratch, f["property"], default_timeout * 2)
            inputs = extract_inputs(trace) if trace else {}
            verdict, detail = ("unavailable", "replay disabled for this obligation")
            if r.ob.replay == "native" and trace is not None:
                verdict, detail = native_replay(r.ob, scratch, inputs, f["property"])
            rec = {"property_id": prop_id, "obligation": r.ob.key, "harness": r.ob.harness,
                   "defs": r.ob.defs, "failed_property": f["property"], "description": f["description"],
                   "inputs": inputs, "native_replay": verdict, "native_detail": detail,
                   "cbmc_cmd": " ".join(cbmc_cmd(r.ob, "$SCRATCH", ["--trace", "--property", f["property"]])),
                   "how_to_replay": "bin/check %s --replay %s" % (prop_id, rp)}
            with open(rp, "w") as fp:
                json.dump(rec, fp, indent=1)
            return r, f, rp, verdict, detail

        if todo:
            with cf.ThreadPoolExecutor(max_workers=JOBS) as ex:
                done = list(ex.map(_replay, todo))
        else:
            done = []
        for r, f, rp, verdict, detail in done:
            if verdict in ("reproduced", "not_reproduced"):
                traces_validated += 1
            if verdict == "not_reproduced":
                unconfirmed.append((r.ob, f, rp, detail))
            else:
                violations.append((r.ob, f, rp, verdict))
        for r in results:
            if r.status == "violated" and not any(v[0] is r.ob for v in violations):
                r.status = "unconfirmed"

        # thorough tier: a sample of the discharged obligations is decided a second time with another SAT back
        # end (kissat instead of MiniSat); a different verdict makes the obligation inconclusive
        solver_diff = None
        if tier == "thorough" and os.environ.get("VERIF_NO_SOLVER_DIFF") != "1":
            import copy, random
            cand = [r for r in results if r.status == "discharged" and "--external-sat-solver" not in r.ob.flags and r.wall < 60]
            random.Random(seed).shuffle(cand)
            cand = cand[:12]

            def _again(r):
                ob2 = copy.copy(r.ob)
                ob2.flags = list(r.ob.flags) + ["--external-sat-solver", "kissat"]
                return r, check_one(ob2, scratch, default_timeout)

            disagreements = []
            if cand:
                with cf.ThreadPoolExecutor(max_workers=JOBS) as ex:
                    for r, r2 in ex.map(_again, cand):
                        if r2.status != "discharged":
                            disagreements.append(r.ob.key)
                            r.status = "inconclusive"
                            r.reason = "MiniSat: discharged, kissat: %s (%s)" % (r2.status, r2.reason[:120])
            solver_diff = {"second_back_end": "kissat (--external-sat-solver)", "obligations_rechecked": len(cand),
                           "disagreements": disagreements, "sample": [r.ob.key for r in cand[:4]]}

        n_ob = len(results)
        n_dis = sum(1 for r in results if r.status == "discharged")
        n_known = sum(1 for r in results if r.status == "known-finding")
        n_vac = sum(1 for r in results if r.status == "vacuous")
        n_inc = sum(1 for r in results if r.status in ("inconclusive", "unconfirmed"))
        n_vio = sum(1 for r in results if r.status == "violated")

        seen = set()
        for ob, f, k in known_hits:
            sig = (k["obligation"], k["assertion"])
            if sig in seen:
                continue
            seen.add(sig)
            print("KNOWN-FINDING: property=%s %s [obligation %s: %s]" % (prop_id, k["what"], ob.key, f["description"]))
        for ob, f, rp, detail in unconfirmed:
            print("UNCONFIRMED property=%s obligation=%s assertion=%r native replay did not reproduce (%s) -> inconclusive, fix the harness" % (
                prop_id, ob.key, f["description"], detail[:120]))
        for r in results:
            if r.status in ("inconclusive", "vacuous"):
                print("%s property=%s obligation=%s: %s" % (r.status.upper(), prop_id, r.ob.key, r.reason[:300]))
        for ob, f, rp, verdict in violations:
            print("VIOLATION property=%s replay=%s" % (prop_id, rp))
            print("  obligation=%s assertion=%r native=%s" % (ob.key, f["description"], verdict))

        wall = time.time() - t0
        samples = []
        for r in results[:6]:
            samples.append({"obligation": r.ob.key, "harness": r.ob.harness, "defs": r.ob.defs,
                            "unwind": r.ob.unwind, "status": r.status, "cbmc_properties": r.nprops,
                            "witnesses_reached": r.witness_ok, "wall_s": round(r.wall, 2),
                            "solver_s": round(r.solver_s, 2), "rss_mb": r.rss_kb // 1024})
        cov = {
            "obligations": n_ob, "discharged": n_dis, "known_finding_obligations": n_known,
            "vacuous": n_vac, "inconclusive": n_inc, "violated": n_vio,
            "evaluations": n_ob,
            "distinct_nontrivial": sum(1 for r in results if r.status in ("discharged", "known-finding") and r.witness_ok > 0),
            "rule": "one evaluation = one cbmc query (obligation) over the real source with symbolic data; non-trivial = verdict reached and at least one reachability witness inside it was shown reachable; obligations are distinct by key (harness x parameters)",
            "samples": samples,
            "traces_validated_against_impl": traces_validated,
            "checker_cmd": " ".join(cbmc_cmd(obligations[0], "$SCRATCH")) if obligations else "",
            "trusted_base": ["cbmc 6.11.0 (symex + MiniSat)", "stubs/libc_models.h", "harness-built states and reference oracles"],
            "functions_encoded": list(functions), "bounds": bounds,
            "cbmc_properties_checked": sum(r.nprops for r in results),
            "solver_time_s": round(sum(r.solver_s for r in results), 2),
            "cpu_wall_sum_s": round(sum(r.wall for r in results), 1),
            "max_rss_mb": max([r.rss_kb for r in results] + [0]) // 1024,
            "per_obligation": [{"key": r.ob.key, "status": r.status, "wall_s": round(r.wall, 2),
                                "solver_s": round(r.solver_s, 2), "props": r.nprops, "vccs": r.vccs,
                                "witnesses": r.witness_ok, "rss_mb": r.rss_kb // 1024,
                                "reason": r.reason[:200]} for r in results],
            "known_findings_seen": sorted(set(k["what"] for _, _, k in known_hits)),
            "note_states_transitions": "no state graph is explored by this technique, so no states/transitions counts are reported; obligations/discharged and cbmc_properties_checked are the measured quantities",
        }
        if solver_diff is not None:
            cov["second_back_end_recheck"] = solver_diff
            cov["disagreements_checked"] = solver_diff["obligations_rechecked"]
        if extra_coverage:
            cov.update(extra_coverage)
        ev = {"property_id": prop_id, "tier": tier, "seed": seed, "level": level, "coverage": cov,
              "assumptions": list(assumptions), "wall_s": round(wall, 2), "violations": len(violations)}
        os.makedirs(os.path.join(OUTDIR, "evidence"), exist_ok=True)
        with open(os.path.join(OUTDIR, "evidence", prop_id + ".json"), "w") as fp:
            json.dump(ev, fp, indent=1)
        print("%s %s: %d obligations, %d discharged, %d known-finding, %d vacuous, %d inconclusive, %d violated; %.1fs wall" % (
            prop_id, tier, n_ob, n_dis, n_known, n_vac, n_inc, n_vio, wall))
        if violations:
            return 1
        if n_inc or n_vac:
            return 2
        return 0
    finally:
        if own and not keep:
            shutil.rmtree(scratch, ignore_errors=True)
