"""bin/check <Cxx> --replay <file>: re-run the native replay (and print the cbmc query) of a recorded counterexample."""
import json
import shutil

import lexbuild
import runner


def replay_file(pid, mod, path):
    rec = json.load(open(path))
    scratch = runner.make_scratch()
    try:
        tables = None
        if getattr(mod, "NEEDS_LEXER", False):
            tables = lexbuild.prepare_lexer(scratch, "quick")["tables"]
        obs = {}
        for tier in ("quick", "thorough"):
            for ob in mod.build_obs(tier, tables):
                obs.setdefault(ob.key, ob)
        ob = obs.get(rec["obligation"])
        if ob is None:
            print("obligation %s no longer exists" % rec["obligation"])
            return 2
        print("cbmc query :", " ".join(runner.cbmc_cmd(ob, scratch, ["--trace", "--property", rec["failed_property"]])))
        print("inputs     :", rec["inputs"])
        verdict, detail = runner.native_replay(ob, scratch, rec["inputs"], rec["failed_property"])
        print("native replay (gcc -fsanitize=address,undefined, real libc): %s\n%s" % (verdict, detail))
        return 1 if verdict == "reproduced" else 0
    finally:
        shutil.rmtree(scratch, ignore_errors=True)
