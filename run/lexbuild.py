"""Build the flattened scanner from /repo's current lexer.l and validate the translation natively
(DESIGN 3.1 step 3 / 3.2).  Any difference between flex's real scanner and the flattened one
makes every lexer-based check INCONCLUSIVE (never a pass, never a violation)."""
import glob
import os
import re
import subprocess

import runner

VERIF = runner.VERIF
REPO = runner.REPO


class Inconclusive(Exception):
    pass


def _run(cmd, cwd, timeout=600, **kw):
    p = subprocess.run(cmd, cwd=cwd, stdout=subprocess.PIPE, stderr=subprocess.PIPE, timeout=timeout, **kw)
    return p.returncode, p.stdout, p.stderr


def prepare_lexer(scratch, tier="quick"):
    """Returns a dict with facts about the generated scanner (rule count, validation counts)."""
    lexl = os.path.join(REPO, "src", "lexer.l")
    rc, out, err = _run(["flex", "-DHAVE_CONFIG_H", "-Pcfg_yy", "-o", "lexer.c", lexl], scratch)
    if rc != 0:
        raise Inconclusive("flex failed: " + err.decode()[-300:])
    rc, out, err = _run(["python3", os.path.join(VERIF, "gen", "genflat.py"), "lexer.c", lexl, "lexer_flat.c"], scratch)
    if rc != 0:
        raise Inconclusive("genflat failed: " + (out + err).decode()[-300:])
    info = {"genflat": out.decode().strip()}
    import json
    info["tables"] = json.load(open(os.path.join(scratch, "lexer_flat.json")))
    flat = open(os.path.join(scratch, "lexer_flat.c")).read()
    m = re.search(r"flat_class_rep\[\] = \{([0-9,]+)\}", flat)
    reps = [int(x) for x in m.group(1).split(",")]
    extra = [32, 58, 45, 86, 49, 255]
    al = "".join("%02x" % b for b in reps + [e for e in extra if e not in reps])
    cf = ["-O1", "-w", "-DHAVE_CONFIG_H", "-DLOCALEDIR=\"/x\"", "-D_GNU_SOURCE", "-I" + REPO, "-I" + os.path.join(REPO, "src")]
    drv = os.path.join(VERIF, "gen", "lexdiff.c")
    conf = os.path.join(REPO, "src", "confuse.c")
    rc, out, err = _run(["gcc"] + cf + ["-DREAL", drv, "lexer.c", conf, "-o", "ld_real"], scratch)
    if rc != 0:
        raise Inconclusive("native build of the real scanner failed: " + err.decode()[-300:])
    rc, out, err = _run(["gcc"] + cf + [drv, "lexer_flat.c", conf, "-o", "ld_flat"], scratch)
    if rc != 0:
        raise Inconclusive("native build of the flattened scanner failed: " + err.decode()[-300:])
    n = 3 if tier == "quick" else 4
    total = 0
    try:
        rc1, o1, e1 = _run(["./ld_real", "enum", str(n), al], scratch, timeout=300)
        rc2, o2, e2 = _run(["./ld_flat", "enum", str(n), al], scratch, timeout=300)
    except subprocess.TimeoutExpired:
        raise Inconclusive("translation validation timed out (flattened scanner does not terminate like the real one)")
    if rc1 != rc2 or o1 != o2:
        info["mismatch"] = "flattened scanner differs from flex's scanner on strings of length <= %d" % n
    total += o1.count(b"\n")
    files = sorted(glob.glob(os.path.join(REPO, "tests", "*.conf")) + glob.glob(os.path.join(REPO, "examples", "*.conf")) +
                   glob.glob(os.path.join(REPO, "tests", "*.c")) + glob.glob(os.path.join(REPO, "examples", "*.c")))
    rc1, o1, e1 = _run(["./ld_real", "file"] + files, scratch)
    rc2, o2, e2 = _run(["./ld_flat", "file"] + files, scratch)
    if rc1 != rc2 or o1 != o2:
        info["mismatch"] = "flattened scanner differs from flex's scanner on files of tests/ and examples/"
    total += o1.count(b"\n")
    # include handling through the whole library (source stack / yyin model)
    inc_a = os.path.join(scratch, "inc_a.conf")
    inc_b = os.path.join(scratch, "inc_b.conf")
    inc_main = os.path.join(scratch, "inc_main.conf")
    inc_bad = os.path.join(scratch, "inc_bad.conf")
    open(inc_a, "w").write("i = 7\ninclude(\"%s\")\ns = 'from a'\n" % inc_b)
    open(inc_b, "w").write("# b\nsec t { i = 3 }\n")
    open(inc_main, "w").write("s = one\ninclude(\"%s\")\ni = 9 # after\n" % inc_a)
    open(inc_bad, "w").write("include(\"%s\")\ninclude(\"/nonexistent/zz\")\ni = 1\n" % inc_b)
    tests = [inc_main, inc_bad] + sorted(glob.glob(os.path.join(REPO, "tests", "*.conf")))
    rc1, o1, e1 = _run([os.path.join(scratch, "ld_real"), "parse"] + tests, os.path.join(REPO, "tests"))
    rc2, o2, e2 = _run([os.path.join(scratch, "ld_flat"), "parse"] + tests, os.path.join(REPO, "tests"))
    if rc1 != rc2 or o1 != o2:
        info["mismatch"] = "flattened scanner differs from flex's scanner on include handling"
    total += len(tests)
    if "mismatch" in info:
        info["translation_validation"] = "FAILED: " + info["mismatch"]
        info["validated_transcripts"] = 0
        return info
    info["translation_validation"] = "flattened scanner == flex scanner on %d transcripts (all strings of length <= %d over %d class representatives in 4 start conditions, %d files, %d whole parses incl. nested/failing includes)" % (
        total, n, len(al) // 2, len(files), len(tests))
    info["validated_transcripts"] = total
    return info
