/* incl_call.c - C13: the built-in include function hands exactly its one argument to the scanner. */
#include <stdio.h>
#include <stdlib.h>
#include <string.h>
#include "confuse.h"
#include "verif.h"
#include "confuse.c"
#include "libc_models.h"
#include "build.h"

static int n_incl, incl_rc;
static const char *incl_name;
static cfg_t *incl_cfg;
int cfg_lexer_include(cfg_t *cfg, const char *fname)
{
	n_incl++;
	incl_cfg = cfg;
	incl_name = fname;
	return incl_rc;
}
int cfg_yylex(cfg_t *cfg) { (void)cfg; return -1; }
void cfg_yylex_destroy(void) { }
void cfg_scan_fp_begin(FILE *fp) { (void)fp; }
void cfg_scan_fp_end(void) { }

int main(void)
{
	cfg_t root;
	cfg_opt_t *ropts = alloc_opts(0);
	const char *argv[3] = { "one", "two", "three" };
	int rc;
	V_IN_INT(vin_argc);
	V_IN_INT(vin_rc);

	V_ASSUME(vin_argc >= 0 && vin_argc <= 3);
	incl_rc = vin_rc;
	init_cfg(&root, "root", ropts, CFGF_NONE);
	rc = cfg_include(&root, NULL, vin_argc, argv);
	if (vin_argc != 1) {
		V_ASSERT(rc != 0 && n_err >= 1 && n_incl == 0, "[C13] include() with a wrong number of arguments is a reported error and includes nothing");
		V_WITNESS("argc");
	} else {
		V_ASSERT(n_incl == 1 && incl_cfg == &root && incl_name == argv[0], "[C13] include(\"f\") hands exactly f and the current context to the scanner");
		V_ASSERT(rc == vin_rc, "[C13] the verdict of the include is the function's verdict");
		V_WITNESS("one");
	}
	V_WITNESS("end of harness");
	return 0;
}
