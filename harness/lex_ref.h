/* lex_ref.h - reference small-step decoder for libconfuse's lexical forms.
 *
 * Written from the property statements (C03/C15/C06) and the language manual, NOT derived
 * from the generated scanner: given the start condition and the remaining input it says what
 * ONE scanning step must do.  Used as the oracle of the lexer-step obligations.
 *
 * Three-valued: r->grey = 1 marks inputs on which the statements are silent (then only the
 * memory-safety / progress / line-count obligations apply).
 */
#ifndef LEX_REF_H
#define LEX_REF_H

#define REF_NONE (-2) /* the step produces no token, scanning goes on */
#ifndef REF_MAXAPP
#define REF_MAXAPP 16
#endif

enum { SC_INITIAL = 0, SC_COMMENT = 1, SC_DQ = 2, SC_SQ = 3 };

struct ref_out {
	int consumed;	 /* bytes of input this step consumes */
	int tok;	 /* REF_NONE or the token returned */
	int new_sc;	 /* start condition after the step */
	int reset;	 /* 1: the scratch string is restarted (length 0) before appending */
	int napp;	 /* bytes appended to the scratch string: none, one decoded byte, or a verbatim input run */
	int app_input;	 /* 1: the appended bytes are input[app_off .. app_off+napp) verbatim */
	int app_off;
	unsigned char app_byte, app_byte2; /* otherwise: the decoded byte(s) (napp <= 2) */
	int closes;	 /* 1: token text is the whole scratch string (closing quote) */
	int trimmed;	 /* 1: token text is the scratch string stripped of surrounding white space */
	int text_input;	 /* 1: token text is exactly the consumed input bytes */
	int text_env;	 /* 1: token text is the environment value / default / "" */
	int env_query;	 /* 1: the step looks up a variable: name = input[env_name_off .. +env_name_len) */
	int env_name_off, env_name_len;
	int env_has_def, env_def_off, env_def_len;
	int lines;	 /* newlines the step must count */
	int glued_comment; /* 1: the word is directly followed by a comment opener whose slash is not part of the word */
	int nerr;	 /* diagnostics the step must deliver */
	int eof;	 /* 1: end of input in this start condition */
	int grey;
};

static int ref_is_ws(unsigned char c)
{
	return c == ' ' || c == '\t' || c == '\n' || c == '\v' || c == '\f' || c == '\r';
}
static int ref_is_oct(unsigned char c) { return c >= '0' && c <= '7'; }
static int ref_is_dec(unsigned char c) { return c >= '0' && c <= '9'; }
static int ref_hexval(unsigned char c)
{
	if (c >= '0' && c <= '9')
		return c - '0';
	if (c >= 'a' && c <= 'f')
		return c - 'a' + 10;
	if (c >= 'A' && c <= 'F')
		return c - 'A' + 10;
	return -1;
}
/* bytes that end an unquoted word */
static int ref_word_stop(unsigned char c)
{
	return c == 0 || c == ' ' || c == '#' || c == '"' || c == '\'' || c == '\t' || c == '\n' || c == '\r' ||
	       c == '=' || c == '{' || c == '}' || c == '(' || c == ')' || c == '+' || c == ',' || c == '*';
}

static void ref_app(struct ref_out *r, unsigned char c)
{
	if (r->napp == 0)
		r->app_byte = c;
	else
		r->app_byte2 = c;
	r->napp++;
}
static void ref_app_input(struct ref_out *r, int off, int len)
{
	r->app_input = 1;
	r->app_off = off;
	r->napp = len;
}
/* k-th appended byte */
static unsigned char ref_app_at(const struct ref_out *r, const unsigned char *b, int k)
{
	if (r->app_input)
		return b[r->app_off + k];
	return k == 0 ? r->app_byte : r->app_byte2;
}

/* ${...}: b points at '$'; returns total length of the form or 0 */
static int ref_env_form(const unsigned char *b, int n, struct ref_out *r)
{
	int i, colon = -1;

	if (n < 3 || b[0] != '$' || b[1] != '{')
		return 0;
	for (i = 2; i < n && b[i] && b[i] != '}'; i++)
		if (colon < 0 && b[i] == ':')
			colon = i;
	if (i >= n || b[i] != '}')
		return 0;
	r->env_query = 1;
	r->env_name_off = 2;
	if (colon >= 0 && b[colon + 1] == '-') {
		r->env_name_len = colon - 2;
		r->env_has_def = 1;
		r->env_def_off = colon + 2;
		r->env_def_len = i - (colon + 2);
	} else {
		r->env_name_len = i - 2;
		if (colon >= 0)
			r->grey = 1; /* ':' that does not introduce a default: not specified */
	}
	for (int k = 2; k < i; k++)
		if (b[k] == '\n')
			r->lines++; /* a newline inside ${...} is still a newline of the file */
	return i + 1;
}

/* b[0..n) is the rest of the input, b[n] == 0 or n is the window end (then b[n] is also 0) */
static void ref_lex_step(int sc, const unsigned char *b, int n, struct ref_out *r)
{
	int i;

	memset(r, 0, sizeof(*r));
	r->tok = REF_NONE;
	r->new_sc = sc;
	if (n == 0 || b[0] == 0) {
		r->eof = 1;
		r->consumed = 0;
		if (sc == SC_SQ) {
			r->tok = 0;
			r->nerr = 1; /* unterminated single-quoted string is rejected */
		} else {
			r->tok = -1; /* EOF (pop of an included source is decided by the include obligations) */
		}
		return;
	}
	switch (sc) {
	case SC_DQ:
		if (b[0] == '"') {
			r->consumed = 1;
			r->tok = CFGT_STR;
			r->closes = 1;
			r->new_sc = SC_INITIAL;
			return;
		}
		if (b[0] == '$') {
			int l = ref_env_form(b, n, r);

			if (l) {
				r->consumed = l;
				return;
			}
			r->consumed = 1;
			ref_app(r, '$');
			return;
		}
		if (b[0] == '\n') {
			r->consumed = 1;
			r->lines = 1;
			ref_app(r, '\n');
			return;
		}
		if (b[0] != '\\') {
			r->consumed = 1;
			ref_app(r, b[0]);
			return;
		}
		/* escapes */
		if (n < 2 || b[1] == 0) { /* backslash is the last byte of the input */
			r->consumed = 1;
			ref_app(r, '\\');
			return;
		}
		if (b[1] == '\n') {
			r->consumed = 2;
			r->lines = 1;
			return;
		}
		if (ref_is_dec(b[1])) {
			int k = 0, m = 0;
			unsigned v = 0;

			while (1 + k < n && ref_is_dec(b[1 + k]))
				k++;
			while (m < 3 && 1 + m < n && ref_is_oct(b[1 + m]))
				m++;
			if (k > m) { /* a digit run that is not 1-3 octal digits: bad escape */
				r->consumed = 1 + k;
				r->tok = 0;
				r->nerr = 1;
				return;
			}
			for (i = 0; i < m; i++)
				v = v * 8 + (unsigned)(b[1 + i] - '0');
			r->consumed = 1 + m;
			if (v > 0xFF) {
				r->tok = 0;
				r->nerr = 1;
				return;
			}
			ref_app(r, (unsigned char)v);
			return;
		}
		if (b[1] == 'x' && n >= 3 && ref_hexval(b[2]) >= 0) {
			unsigned v = (unsigned)ref_hexval(b[2]);

			r->consumed = 3;
			if (n >= 4 && ref_hexval(b[3]) >= 0) {
				v = v * 16 + (unsigned)ref_hexval(b[3]);
				r->consumed = 4;
			}
			ref_app(r, (unsigned char)v);
			return;
		}
		r->consumed = 2;
		switch (b[1]) {
		case 'n': ref_app(r, '\n'); break;
		case 't': ref_app(r, '\t'); break;
		case 'r': ref_app(r, '\r'); break;
		case 'b': ref_app(r, '\b'); break;
		case 'f': ref_app(r, '\f'); break;
		case 'a': ref_app(r, 7); break;
		case 'e': ref_app(r, 27); break;
		case 'v': ref_app(r, '\v'); break;
		default: ref_app(r, b[1]); break; /* any other \c means c */
		}
		return;

	case SC_SQ:
		if (b[0] == '\'') {
			r->consumed = 1;
			r->tok = CFGT_STR;
			r->closes = 1;
			r->new_sc = SC_INITIAL;
			return;
		}
		if (b[0] == '\n') {
			r->consumed = 1;
			r->lines = 1;
			ref_app(r, '\n');
			return;
		}
		if (b[0] == '\\') {
			if (n < 2 || b[1] == 0) {
				r->consumed = 1;
				ref_app(r, '\\');
				return;
			}
			if (b[1] == '\n') {
				r->consumed = 2;
				r->lines = 1;
				return;
			}
			r->consumed = 2;
			if (b[1] == '\\' || b[1] == '\'') {
				ref_app(r, b[1]);
			} else {
				ref_app(r, '\\');
				ref_app(r, b[1]);
			}
			return;
		}
		for (i = 0; i < n && b[i] && b[i] != '\\' && b[i] != '\'' && b[i] != '\n'; i++)
			;
		ref_app_input(r, 0, i);
		r->consumed = i;
		return;

	case SC_COMMENT: {
		int ws = 0, st;

		if (b[0] == '\n') {
			r->consumed = 1;
			r->lines = 1;
			ref_app(r, '\n');
			return;
		}
		while (ws < n && (b[ws] == ' ' || b[ws] == '\t'))
			ws++;
		st = ws;
		while (st < n && b[st] == '*')
			st++;
		if (st > ws && st < n && b[st] == '/') { /* [ \t]* "*"+ "/" closes the comment */
			r->consumed = st + 1;
			r->tok = CFGT_COMMENT;
			r->trimmed = 1;
			r->new_sc = SC_INITIAL;
			return;
		}
		if (b[0] == '*') { /* stars not followed by '/', then text up to the next star, slash or newline */
			i = 0;
			while (i < n && b[i] == '*')
				i++;
			while (i < n && b[i] && b[i] != '*' && b[i] != '/' && b[i] != '\n')
				i++;
		} else {
			i = 0;
			while (i < n && b[i] && b[i] != '*' && b[i] != '\n')
				i++;
		}
		ref_app_input(r, 0, i);
		r->consumed = i;
		return;
	}

	default: /* SC_INITIAL */
		if (b[0] == ' ' || b[0] == '\t') {
			i = 0;
			while (i < n && (b[i] == ' ' || b[i] == '\t'))
				i++;
			r->consumed = i;
			return;
		}
		if (b[0] == '\n') {
			r->consumed = 1;
			r->lines = 1;
			return;
		}
		if (b[0] == '#' || (b[0] == '/' && n >= 2 && b[1] == '/')) {
			unsigned char mk = b[0];
			int skip = 0;

			i = 0;
			while (i < n && b[i] && b[i] != '\n')
				i++;
			while (skip < i && b[skip] == mk)
				skip++;
			r->consumed = i;
			r->tok = CFGT_COMMENT;
			r->reset = 1;
			r->trimmed = 1;
			ref_app_input(r, skip, i - skip);
			return;
		}
		if (b[0] == '/' && n >= 2 && b[1] == '*') {
			r->consumed = 2;
			r->new_sc = SC_COMMENT;
			r->reset = 1;
			return;
		}
		if (b[0] == '"' || b[0] == '\'') {
			r->consumed = 1;
			r->new_sc = b[0] == '"' ? SC_DQ : SC_SQ;
			r->reset = 1;
			return;
		}
		if (b[0] == '+' && n >= 2 && b[1] == '=') {
			r->consumed = 2;
			r->tok = '+';
			r->text_input = 1;
			return;
		}
		if (b[0] == '{' || b[0] == '}' || b[0] == '(' || b[0] == ')' || b[0] == '=' || b[0] == ',') {
			r->consumed = 1;
			r->tok = b[0];
			r->text_input = 1;
			return;
		}
		if (b[0] == '$') {
			int l = ref_env_form(b, n, r);

			if (l) {
				/* a longer unquoted word cannot start with "${" because '{' ends a word */
				r->consumed = l;
				r->tok = CFGT_STR;
				r->text_env = 1;
				return;
			}
		}
		if (!ref_word_stop(b[0])) {
			/* an unquoted word is taken verbatim up to the next delimiter; a word may
			 * contain '/' but a word never swallows a comment opener it starts with */
			i = 0;
			while (i < n && !ref_word_stop(b[i]))
				i++;
			/* ... nor one that directly follows it: "word" "/" "*" is a word and the start of a comment (C15:
			 * a comment may stand between any two tokens, with or without blanks around it) */
			if (i >= 2 && i < n && b[i - 1] == '/' && b[i] == '*') {
				i--;
				r->glued_comment = 1;
			}
			r->consumed = i;
			r->tok = CFGT_STR;
			r->text_input = 1;
			return;
		}
		/* stray '*', '+', '\r': skipped silently */
		r->consumed = 1;
		return;
	}
}

#endif
