/* c05_rt.c - C05 print -> parse round trip, per-byte / per-value lemmas on the real code.
 *  MODE 1: a string VALUE byte c is printed by the real cfg_opt_nprint_var(); the printed chunk, followed by
 *          arbitrary continuation bytes, is fed to one step of the real <dq_str> rules (flattened scanner):
 *          the step must consume exactly the chunk and append exactly c.
 *  MODE 2: the same for a section TITLE byte as printed by the real cfg_opt_print_pff_indent().
 *  MODE 3: an integer printed by the real cfg_opt_nprint_var() ("%ld") converts back through the real
 *          cfg_setopt() to the same number; a boolean likewise.
 */
#include <stdio.h>
#include <stdlib.h>
#include <string.h>
#include <stdarg.h>
#include "confuse.h"
#include "verif.h"

#ifndef CONT
#define CONT 3 /* arbitrary bytes that follow the printed chunk */
#endif

/* fprintf into memory: the formats the printer uses for values, titles and layout */
static char out[64];
static int out_n;
static void put(char c)
{
	if (out_n < 63)
		out[out_n++] = c;
}
static void put_ld(long v)
{
	char tmp[24];
	int n = 0;
	unsigned long u = v < 0 ? 0UL - (unsigned long)v : (unsigned long)v;

	if (v < 0)
		put('-');
	do {
		tmp[n++] = (char)('0' + u % 10);
		u /= 10;
	} while (u && n < 22);
	while (n > 0)
		put(tmp[--n]);
}
static int v_fprintf(FILE *fp, const char *fmt, ...)
{
	va_list ap;
	const char *f;

	(void)fp;
	va_start(ap, fmt);
	for (f = fmt; *f; f++) {
		if (*f != '%') {
			put(*f);
			continue;
		}
		f++;
		if (*f == 'c') {
			put((char)va_arg(ap, int));
		} else if (*f == 's') {
			const char *s = va_arg(ap, const char *);
			int k;

			for (k = 0; s && s[k] && k < 8; k++)
				put(s[k]);
		} else if (*f == 'l' && f[1] == 'd') {
			f++;
			put_ld(va_arg(ap, long));
		} else if (*f == 'f') {
			(void)va_arg(ap, double);
			put('F');
		}
	}
	va_end(ap);
	return 0;
}
/* other stdio output calls a refactored printer might use are routed to the same sink */
static int v_fputs(const char *str, FILE *fp)
{
	const char *q;

	for (q = str; *q; q++)
		if (*q == '%')
			return v_fprintf(fp, "%s", str);
	return v_fprintf(fp, str);
}
static int v_fputc(int c, FILE *fp) { return v_fprintf(fp, "%c", c); }
#define fprintf v_fprintf
#define fputs v_fputs
#define fputc v_fputc
#undef putc
#define putc v_fputc
#include "confuse.c"
#undef fprintf
#undef fputs
#undef fputc
#undef putc
#include "build.h"

#if MODE == 1 || MODE == 2 || MODE == 5
/* ---- the scanner ---- */
static int n_echo, st_act, st_start, st_pos, stepped;
#define ECHO do { n_echo++; } while (0)
static void verif_break(void);
#define YY_BREAK { verif_break(); break; }
#define FLAT_STEP_HOOK(act, s, p) do { st_act = (act); st_start = (s); st_pos = (p); } while (0)
static char *v_getenv(const char *name)
{
	(void)name;
	return NULL;
}
#define getenv v_getenv
#ifdef __CPROVER__
static int v_sscanf(const char *s, const char *fmt, unsigned int *outv)
{
	unsigned v = 0;
	int base = (fmt[1] == 'o') ? 8 : 16, i;

	for (i = 0; i < 3; i++) {
		int c = (unsigned char)s[i], d = (c >= '0' && c <= '9') ? c - '0' : (c >= 'a' && c <= 'f') ? c - 'a' + 10 : (c >= 'A' && c <= 'F') ? c - 'A' + 10 : 99;

		if (d >= base)
			break;
		v = v * (unsigned)base + (unsigned)d;
	}
	*outv = v;
	return i > 0;
}
#define sscanf v_sscanf
#endif
static char src[16];
static FILE fake_fp;
char *flat_text_for(FILE *fp)
{
	(void)fp;
	return src;
}
#include "lexer_flat.c"
#endif
#include "libc_models.h"

static unsigned char the_c;
static int chunk_len;
static char body[8], rest[8]; /* printed string body (between the quotes) of s and of s+1 */
static int body_len, rest_len;
static size_t index0;
static cfg_t lcfg;

#if MODE == 5
static char key_name[3];
static int key_len;
static void check(int tok)
{
	int consumed = st_pos - st_start;

	stepped = 1;
	V_ASSERT(tok == CFGT_STR && consumed == key_len && cfg_yylval != NULL && strcmp(cfg_yylval, key_name) == 0,
		 "[C05] a printed option name reads back as that name (one string token, nothing more, nothing less)");
	V_ASSERT(n_echo == 0, "[C02] nothing is echoed");
	V_WITNESS("stepped");
}
static void verif_break(void)
{
	check(-2);
	V_CUT();
}
#endif
#if MODE == 1 || MODE == 2
static void check(int tok)
{
	int consumed = st_pos - st_start;

	stepped = 1;
#ifndef EXCL_DOLLAR
	(void)0;
#endif
	V_ASSERT(tok == -2, "[C05] a printed string byte does not end the string or fail when it is read back");
	V_ASSERT(consumed >= 1 && consumed <= body_len, "[C05] reading back one byte stays inside the printed string");
	if (consumed >= 1 && consumed <= body_len) {
		/* what is left to read is exactly what the printer writes for the rest of the string */
		int k, same = (body_len - consumed == rest_len);

		for (k = 0; k < 4; k++)
			if (k < rest_len && same && body[consumed + k] != rest[k])
				same = 0;
		V_ASSERT(same, "[C05] after reading back one byte the remaining text is the printed form of the remaining string (induction step)");
	}
	V_ASSERT(qstring_index == index0 + 1 && cfg_qstring != NULL && (unsigned char)cfg_qstring[index0] == the_c, "[C05] reading back yields exactly the byte that was printed (strings round-trip byte for byte)");
	V_ASSERT(n_echo == 0, "[C02] nothing is echoed");
	V_WITNESS("stepped");
}
static void verif_break(void)
{
	check(-2);
	V_CUT();
}
#endif

int main(void)
{
	cfg_opt_t *ropts = alloc_opts(1);
	cfg_opt_t *O = &ropts[0];
	int i;

	(void)i;
	memset(&lcfg, 0, sizeof(lcfg));
	lcfg.line = 1;
#if MODE == 1
	{
		V_IN_UCHAR(vin_c);
		V_IN_UCHAR(vin_d);
		char s[3];

		V_ASSUME(vin_c != 0);
#ifdef EXCL_DOLLAR
		V_ASSUME(vin_c != '$'); /* re-proof outside a recorded finding */
#endif
		the_c = vin_c;
		s[0] = (char)vin_c;
		s[1] = (char)vin_d; /* may be 0: one-byte string */
		s[2] = 0;
		init_opt(O, "o", CFGT_STR, CFGF_NONE);
		alloc_values(O, 1);
		O->values[0]->string = heap_str(s);
		cfg_opt_nprint_var(O, 0, (FILE *)&lcfg);
		V_ASSERT(out_n >= 3 && out_n <= 6 && out[0] == '"' && out[out_n - 1] == '"', "[C05] a string value is printed between double quotes");
		body_len = out_n - 2;
		for (i = 0; i < body_len && i < 4; i++)
			body[i] = out[1 + i];
		/* the printed form of the rest of the string */
		out_n = 0;
		O->values[0]->string = heap_str(s + 1);
		cfg_opt_nprint_var(O, 0, (FILE *)&lcfg);
		rest_len = out_n - 2;
		for (i = 0; i < rest_len && i < 4; i++)
			rest[i] = out[1 + i];
	}
#elif MODE == 2
	{
		V_IN_UCHAR(vin_c);
		V_IN_UCHAR(vin_d);
		static cfg_opt_t sub[] = { CFG_END() };
		cfg_t *sec;
		char t[3];
		int q1, q2, pass;

		V_ASSUME(vin_c != 0);
		the_c = vin_c;
		t[0] = (char)vin_c;
		t[1] = (char)vin_d;
		t[2] = 0;
		init_opt(O, "o", CFGT_SEC, CFGF_MULTI | CFGF_TITLE);
		O->subopts = sub;
		alloc_values(O, 1);
		sec = malloc(sizeof(cfg_t));
		V_ASSUME(sec != NULL);
		init_cfg(sec, "o", alloc_opts(0), CFGF_NONE);
		O->values[0]->section = sec;
		for (pass = 0; pass < 2; pass++) {
			/* o "<title>" {\n}\n : the printed title stands between the first and the LAST quote of line 1 */
			out_n = 0;
			sec->title = heap_str(t + pass);
			cfg_opt_print_pff_indent(O, (FILE *)&lcfg, NULL, 0);
			/* o "<title>" {\n}\n : the printed title stands between the quote after the name and the quote
			 * that precedes the final  {\n}\n  */
			q1 = 2;
			q2 = out_n - 6;
			V_ASSERT(out_n >= 9 && out[0] == 'o' && out[1] == ' ' && out[q1] == '"' && q2 > q1 - 1 + 1 - (pass == 1) && out[q2] == '"' && out[q2 + 1] == ' ' && out[q2 + 2] == '{' &&
					 q2 - q1 - 1 <= 4,
				 "[C05] a section title is printed between double quotes after the section name");
			if (pass == 0) {
				body_len = q2 - q1 - 1;
				for (i = 0; i < body_len && i < 4; i++)
					body[i] = out[q1 + 1 + i];
			} else {
				rest_len = q2 - q1 - 1;
				for (i = 0; i < rest_len && i < 4; i++)
					rest[i] = out[q1 + 1 + i];
			}
		}
	}
#endif
#if MODE == 1 || MODE == 2
	{
		/* arbitrary continuation (the rest of the string, the closing quote, ...) */
		char vin_cont[CONT + 1];

		V_FILL_STR(vin_cont, CONT);
		V_ASSUME(body_len >= 1 && body_len <= 4);
		for (i = 0; i < body_len; i++)
			src[i] = body[i];
		src[body_len] = '"'; /* the closing quote the printer writes */
		for (i = 0; i < CONT; i++)
			src[body_len + 1 + i] = vin_cont[i];
		src[body_len + 1 + CONT] = 0;
		cfg_scan_fp_begin(&fake_fp);
		BEGIN(dq_str);
		qstring_len = 32;
		cfg_qstring = malloc(33);
		V_ASSUME(cfg_qstring != NULL);
		memset(cfg_qstring, 0, 33);
		cfg_qstring[0] = 'a';
		cfg_qstring[1] = 'b';
		qstring_index = index0 = 2;
		check(cfg_yylex(&lcfg));
	}
#elif MODE == 3
	{
		cfg_t root;
		V_IN_LONG(vin_v);
		V_IN_BOOL(vin_b);
		cfg_value_t *r;
		cfg_opt_t *ropts2 = alloc_opts(1);
		cfg_opt_t *B = &ropts2[0];

#ifndef FULLRANGE
		V_ASSUME(vin_v >= -99999 && vin_v <= 99999);
#endif
		init_cfg(&root, "root", ropts, CFGF_NONE);
		init_opt(O, "o", CFGT_INT, CFGF_NONE);
		alloc_values(O, 1);
		O->values[0]->number = vin_v;
		cfg_opt_nprint_var(O, 0, (FILE *)&lcfg);
		out[out_n] = 0;
		O->values[0]->number = 0;
		r = cfg_setopt(&root, O, out);
		V_ASSERT(r != NULL && O->values[0]->number == vin_v, "[C05] a printed integer is accepted and converts back to exactly the same number");
		/* booleans */
		out_n = 0;
		init_opt(B, "b", CFGT_BOOL, CFGF_NONE);
		alloc_values(B, 1);
		B->values[0]->boolean = vin_b ? cfg_true : cfg_false;
		cfg_opt_nprint_var(B, 0, (FILE *)&lcfg);
		out[out_n] = 0;
		B->values[0]->boolean = vin_b ? cfg_false : cfg_true;
		r = cfg_setopt(&root, B, out);
		V_ASSERT(r != NULL && (int)B->values[0]->boolean == (vin_b ? 1 : 0), "[C05] a printed boolean is accepted and converts back to the same truth value");
		V_WITNESS("stepped");
	}
#elif MODE == 5
	{
		/* the name of a free-form key (CFGF_KEYSTRVAL sections create an option for ANY string token in name
		 * position, quoted ones included) as the real printer writes it, read back by one scanner step */
		V_IN_UCHAR(vin_c);
		V_IN_UCHAR(vin_d);

		V_ASSUME(vin_c != 0);
#ifdef BAREWORD
		/* names that are bare words of the language */
		V_ASSUME((vin_c >= 'a' && vin_c <= 'z') || (vin_c >= 'A' && vin_c <= 'Z') || (vin_c >= '0' && vin_c <= '9') || vin_c == '_' || vin_c == '-');
		V_ASSUME(vin_d == 0 || (vin_d >= 'a' && vin_d <= 'z') || (vin_d >= 'A' && vin_d <= 'Z') || (vin_d >= '0' && vin_d <= '9') || vin_d == '_' || vin_d == '-');
#endif
		key_name[0] = (char)vin_c;
		key_name[1] = (char)vin_d;
		key_name[2] = 0;
		key_len = vin_d ? 2 : 1;
		init_opt(O, key_name, CFGT_STR, CFGF_NONE);
		alloc_values(O, 1);
		O->values[0]->string = heap_str("v");
		cfg_opt_print_pff_indent(O, (FILE *)&lcfg, NULL, 0);
		out[out_n] = 0;
		V_ASSERT(out_n == key_len + 5 || out_n > key_len + 5, "[C05] an option is printed as its name, '=' and its value");
		for (i = 0; i < out_n && i < 15; i++)
			src[i] = out[i];
		src[i] = 0;
		cfg_scan_fp_begin(&fake_fp);
		check(cfg_yylex(&lcfg));
	}
#elif MODE == 4
	{
		/* an annotation of up to 3 arbitrary bytes, printed by the real cfg_opt_print_pff_indent(): whatever
		 * comment style the printer chooses, the printed text must be ONE comment of the language followed by
		 * the option line - "/" "*" ... "*" "/" closes at the first star-slash, "#..." and "//..." end at the
		 * first newline */
		V_IN_UCHAR(vin_c);
		V_IN_UCHAR(vin_d);
		V_IN_UCHAR(vin_e);
		char t[4];
		int k, end, ok = 0;

		V_ASSUME(vin_c != 0);
		t[0] = (char)vin_c;
		t[1] = (char)vin_d;
		t[2] = (char)(vin_d ? vin_e : 0);
		t[3] = 0;
		/* annotations come trimmed from the scanner: no blank at either end (so a 3-byte text cannot hold both a
		 * line break and a star-slash - that combination, only reachable through cfg_opt_setcomment(), is outside the claim) */
		V_ASSUME(!vm_isspace(vin_c) && !(vin_d && !vin_e && vm_isspace(vin_d)) && !(vin_d && vin_e && vm_isspace(vin_e)));
		init_opt(O, "o", CFGT_INT, CFGF_COMMENTS);
		alloc_values(O, 1);
		O->values[0]->number = 1;
		O->comment = heap_str(t);
		cfg_opt_print_pff_indent(O, (FILE *)&lcfg, NULL, 0);
		out[out_n] = 0;
		/* the option line "o=1\n" ends the output; what stands before it is the printed annotation */
		V_ASSERT(out_n >= 6 && out[out_n - 1] == '\n' && out[out_n - 2] == '1' && out[out_n - 3] == '=' && out[out_n - 4] == 'o' && out[out_n - 5] == '\n',
			 "[C05] an annotated option is printed as its annotation, a newline, and the assignment line");
		end = out_n - 5; /* index of the newline that ends the annotation part */
		if (out[0] == '/' && out[1] == '*') {
			/* the first star-slash after the opener must be the one that ends the annotation part */
			for (k = 2; k + 1 < end && !(out[k] == '*' && out[k + 1] == '/'); k++)
				;
			ok = (k + 2 == end);
		} else if (out[0] == '#' || (out[0] == '/' && out[1] == '/')) {
			for (k = 0; k < end && out[k] != '\n'; k++)
				;
			ok = (k == end);
		}
		V_ASSERT(ok, "[C15] a printed annotation is exactly one comment of the language (it is not ended early by its own text), so that a re-parse reads it back and nothing of it is taken for configuration items");
		V_WITNESS("stepped");
	}
#endif
	V_WITNESS("end of harness");
	return 0;
}
