/* api_step.c - ONE call of a public mutator from an arbitrary valid option state, compared with an
 * abstract typed store (C09) and with a bit-for-bit snapshot when the call is refused (C10).
 *
 * Code under test (verbatim /repo/src/confuse.c): cfg_opt_setnint/-float/-bool/-str, cfg_opt_getval,
 * cfg_addval, cfg_setlist, cfg_addlist, cfg_addlist_internal, cfg_opt_setmulti, cfg_setopt,
 * cfg_addtsec, cfg_opt_rmnsec, cfg_opt_rmtsec, cfg_free_value, cfg_free, cfg_getopt (leaf), cfg_setnint (validcb2).
 *
 * Concrete: -DOP (which call), -DKIND (option kind), -DNV (values held, 0..3), -DN (arguments of bulk calls).
 * Symbolic: stored values, RESET/MODIFIED bits, annotation, arguments (values, index 0..4, strings, title).
 */
#include <stdio.h>
#include <stdlib.h>
#include <string.h>
#include "confuse.h"
#include "verif.h"
#ifdef __CPROVER__
static void *v_realloc(void *p, size_t n)
{
	void **q = malloc(n);
	size_t old = p ? __CPROVER_OBJECT_SIZE(p) / sizeof(void *) : 0, cnt = n / sizeof(void *), i;

	for (i = 0; i < old && i < cnt; i++)
		q[i] = ((void **)p)[i];
	free(p);
	return q;
}
#define realloc v_realloc
/* memmove() on the value vector (cfg_opt_rmnsec): element-wise, CBMC's byte-wise built-in loses
 * the pointer structure */
static void *v_memmove(void *dst, const void *src, size_t n)
{
	void **d = dst;
	void *const *s = src;
	size_t cnt = n / sizeof(void *), i;

	for (i = 0; i < cnt; i++)
		d[i] = s[i]; /* dst < src in the only caller */
	return dst;
}
#define memmove v_memmove
#endif
#include "confuse.c"
#define VM_STRTOD_CONTRACT
#include "libc_models.h"
#include "build.h"

/* assertion groups: each property's check compiles only its own assertions */
#ifdef CHK_C09
#define A09(c, m) V_ASSERT(c, m)
#else
#define A09(c, m) ((void)0)
#endif
#if defined(CHK_C10) || defined(CHK_C09) /* "fails without effect" is part of C09 as well */
#define A10(c, m) V_ASSERT(c, m)
#else
#define A10(c, m) ((void)0)
#endif
#ifdef CHK_C07
#define A07(c, m) V_ASSERT(c, m)
#else
#define A07(c, m) ((void)0)
#endif
#ifdef CHK_C14
#define A14(c, m) V_ASSERT(c, m)
#else
#define A14(c, m) ((void)0)
#endif

#define KI_INT 1
#define KI_INTLIST 2
#define KI_STR 3
#define KI_STRLIST 4
#define KI_BOOL 5
#define KI_FLOATLIST 6
#define KI_SECT 7  /* MULTI | TITLE, existing titles "A","B","C" */
#define KI_SECM 8  /* MULTI */
#define KI_SEC 9   /* single */

#define OP_SETN 1	/* typed indexed setter of the option's own type */
#define OP_WRONGTYPE 2	/* typed setter of another type */
#define OP_SETLIST 3
#define OP_ADDLIST 4
#define OP_SETMULTI 5
#define OP_ADDTSEC 6
#define OP_RMNSEC 7
#define OP_RMTSEC 8
#define OP_SETOPT_TEXT 9
#ifndef CTXF
#define CTXF 0 /* flags of the context (concrete per obligation): 0 or CFGF_NOCASE */
#endif
#define SAME_TITLE(c, d) ((c) == (d) || ((CTXF & CFGF_NOCASE) && ((c) | 0x20) == ((d) | 0x20) && (((c) | 0x20) >= 'a' && ((c) | 0x20) <= 'z')))
#define OP_SETNINT_VETO 10 /* cfg_setnint() by name with a pre-set validation callback */
#define OP_SETNSTR_VETO 11 /* cfg_setnstr() by name, value a string or NULL, index symbolic */
#define OP_SETNFLOAT_VETO 12 /* cfg_setnfloat() by name, index symbolic */
#define OP_SIMPLE_SET 13 /* integer setters on a "simple" option (value lives in the application's variable) */

#ifndef NV
#define NV 1
#endif
#ifndef N
#define N 1
#endif
#ifndef NEWTITLE
#define NEWTITLE 'D'
#endif

#define pre_comment_txt vin_pre_comment_txt /* symbolic inputs carry the vin_ prefix */

static cfg_t root;
static cfg_opt_t *O;

/* snapshot */
static unsigned pre_n;
static int pre_flags;
static long pre_num[3];
static char pre_str[3][2];
static char *pre_strptr[3];
static cfg_t *pre_sec[3];
static cfg_value_t *pre_cell[3];
static cfg_value_t **pre_values;
static char *pre_comment;
static char pre_comment_txt[2];

static int is_listlike(void) { return (O->flags & (CFGF_LIST | CFGF_MULTI)) != 0; }

static long obs_num(unsigned i)
{
	if (O->type == CFGT_INT)
		return cfg_opt_getnint(O, i);
	if (O->type == CFGT_BOOL)
		return (long)cfg_opt_getnbool(O, i);
	return 0;
}

static void build(void)
{
	cfg_opt_t *opts = alloc_opts(1);
	unsigned i;
	cfg_type_t type = CFGT_INT;
	cfg_flag_t fl = 0;

	switch (KIND) {
	case KI_INT: type = CFGT_INT; break;
	case KI_INTLIST: type = CFGT_INT; fl = CFGF_LIST; break;
	case KI_STR: type = CFGT_STR; break;
	case KI_STRLIST: type = CFGT_STR; fl = CFGF_LIST; break;
	case KI_BOOL: type = CFGT_BOOL; break;
	case KI_FLOATLIST: type = CFGT_FLOAT; fl = CFGF_LIST; break;
	case KI_SECT: type = CFGT_SEC; fl = CFGF_MULTI | CFGF_TITLE; break;
	case KI_SECM: type = CFGT_SEC; fl = CFGF_MULTI; break;
	case KI_SEC: type = CFGT_SEC; break;
	}
	init_opt(&opts[0], "o", type, fl);
	O = &opts[0];
	if (type == CFGT_SEC) {
		static cfg_opt_t sub[] = { CFG_INT("a", 7, CFGF_NONE), CFG_STR("z", "q", CFGF_NONE), CFG_END() };

		O->subopts = sub;
	}
	init_cfg(&root, "root", opts, CTXF);
	alloc_values(O, NV);
	for (i = 0; i < NV; i++) {
		pre_cell[i] = O->values[i];
		if (type == CFGT_INT) {
			V_IN_LONG(vin_val);
			O->values[i]->number = vin_val;
			pre_num[i] = vin_val;
		} else if (type == CFGT_BOOL) {
			V_IN_BOOL(vin_bval);
			O->values[i]->boolean = vin_bval ? cfg_true : cfg_false;
			pre_num[i] = vin_bval;
		} else if (type == CFGT_FLOAT) {
			O->values[i]->fpnumber = 0.5 + i;
		} else if (type == CFGT_STR) {
			V_IN_UCHAR(vin_sval);
			V_ASSUME(vin_sval != 0);
			pre_str[i][0] = (char)vin_sval;
			pre_str[i][1] = 0;
			O->values[i]->string = heap_str(pre_str[i]);
			pre_strptr[i] = O->values[i]->string;
		} else if (type == CFGT_SEC) {
			char t[2] = { (char)('A' + i), 0 };

			O->values[i]->section = mk_section2("o", (fl & CFGF_TITLE) ? t : NULL, CTXF);
			pre_sec[i] = O->values[i]->section;
		}
	}
	if (type != CFGT_SEC) {
		V_IN_BOOL(vin_reset);
		V_IN_BOOL(vin_modified);

		O->flags |= CFGF_DEFINIT;
#ifdef EXCL_RESET
		V_ASSUME(!vin_reset); /* re-proof outside a recorded finding (see known_findings.txt) */
#endif
		if (vin_reset)
			O->flags |= CFGF_RESET; /* option still holds only its defaults */
		if (vin_modified)
			O->flags |= CFGF_MODIFIED;
		{
			V_IN_BOOL(vin_has_comment);
			if (vin_has_comment) {
				V_FILL_STR(pre_comment_txt, 1);
				V_ASSUME(pre_comment_txt[0] != 0);
				O->comment = heap_str(pre_comment_txt);
				O->flags |= CFGF_COMMENTS;
			}
		}
	} else if (!(fl & CFGF_MULTI)) {
		O->flags |= CFGF_DEFINIT;
	}
	pre_n = O->nvalues;
	pre_flags = O->flags;
	pre_values = O->values;
	pre_comment = O->comment;
}

/* C10: the option is bit-for-bit what it was */
static void assert_untouched(void)
{
	unsigned i;

	A10(O->nvalues == pre_n, "[C10] a refused update leaves the number of values unchanged");
	A10((O->flags & (CFGF_RESET | CFGF_MODIFIED)) == (pre_flags & (CFGF_RESET | CFGF_MODIFIED)), "[C10] a refused update leaves the default/modified markers unchanged");
	A10(O->comment == pre_comment, "[C10] a refused update leaves the annotation in place");
	if (pre_comment != NULL && O->comment == pre_comment)
		A10(V_R_OK(O->comment, 2) && O->comment[0] == pre_comment_txt[0] && O->comment[1] == 0, "[C10] a refused update leaves the annotation text unchanged");
	if (O->nvalues == pre_n) {
		A10(pre_n == 0 || O->values == pre_values, "[C10] a refused update leaves the value vector in place");
		for (i = 0; i < NV && O->values == pre_values; i++) {
			A10(O->values[i] == pre_cell[i], "[C10] a refused update keeps values and their order");
			if (O->values[i] != pre_cell[i])
				continue;
			if (O->type == CFGT_INT || O->type == CFGT_BOOL)
				A10(obs_num(i) == pre_num[i], "[C10] a refused update leaves every value unchanged");
			if (O->type == CFGT_STR)
				A10(O->values[i]->string == pre_strptr[i] && V_R_OK(pre_strptr[i], 2) && pre_strptr[i][0] == pre_str[i][0], "[C10] a refused update leaves every string unchanged");
			if (O->type == CFGT_SEC)
				A10(O->values[i]->section == pre_sec[i] && V_R_OK(pre_sec[i], sizeof(cfg_t)), "[C10] a refused update leaves every section instance in place");
		}
	}
}

/* integer class of a 2-byte text: 1 accept (value in *v), 0 reject, -1 grey */
static int txt_int(const char *s, long *v)
{
	int i, all = 1, any = 0;
	long a = 0;

	for (i = 0; i < 2 && s[i]; i++) {
		unsigned char c = (unsigned char)s[i];

		if (c >= '0' && c <= '9')
			a = a * 10 + (c - '0');
		else
			all = 0;
		if ((c >= '0' && c <= '9') || (c >= 'a' && c <= 'f') || (c >= 'A' && c <= 'F'))
			any = 1;
	}
	if (i == 0 || !any)
		return 0;
	if (all && (s[0] != '0' || s[1] == 0)) {
		*v = a;
		return 1;
	}
	return -1;
}

#if OP == OP_SETNINT_VETO
static int veto_rc;
static long veto_rewrite;
static int veto_do_rewrite;
static int n_veto;
static long veto_seen;
static int veto_cb(cfg_t *cfg, cfg_opt_t *opt, void *value)
{
	(void)cfg;
	(void)opt;
	n_veto++;
	veto_seen = *(long *)value;
	if (veto_do_rewrite)
		*(long *)value = veto_rewrite;
	return veto_rc;
}
#endif

#if OP == OP_SETNSTR_VETO || OP == OP_SETNFLOAT_VETO
static int veto_rc, n_veto;
static const void *veto_seen;
static int veto_cb(cfg_t *cfg, cfg_opt_t *opt, void *value)
{
	(void)cfg;
	(void)opt;
	n_veto++;
	veto_seen = value;
	return veto_rc;
}
#endif

#if OP == OP_SIMPLE_SET
static long simple_num;
#endif

int main(void)
{
	unsigned i;
	int rc;

	build();
#if OP == OP_SIMPLE_SET
	{
		V_IN_LONG(vin_old);
		V_IN_LONG(vin_new);
		V_IN_BOOL(vin_byname);

		simple_num = vin_old;
		O->simple_value.number = &simple_num;
		O->flags &= ~CFGF_MODIFIED;
		rc = vin_byname ? cfg_setint(&root, "o", vin_new) : cfg_opt_setnint(O, vin_new, 0);
		A09(rc == CFG_SUCCESS && simple_num == vin_new && cfg_opt_getnint(O, 0) == vin_new && cfg_getint(&root, "o") == vin_new, "[C09] a setter on a simple option stores the value where the getter (and the application) reads it");
		A09((O->flags & CFGF_MODIFIED) != 0, "[C09] a successful setter marks the option modified (simple options included)");
		A09(O->nvalues == NV, "[C09] a simple option grows no value cells");
		V_WITNESS("applied");
	}
#endif

#if OP == OP_SETN
	{
		V_IN_UINT(vin_idx);
		V_IN_LONG(vin_new);
		V_IN_UCHAR(vin_newc);
		char ns[2] = { (char)vin_newc, 0 };
		unsigned base_n = pre_n; /* the abstract store: values the option holds, declared defaults included */

		V_ASSUME(vin_idx <= 4);
		if (O->type == CFGT_INT)
			rc = cfg_opt_setnint(O, vin_new, vin_idx);
		else if (O->type == CFGT_BOOL)
			rc = cfg_opt_setnbool(O, (vin_new & 1) ? cfg_true : cfg_false, vin_idx);
		else if (O->type == CFGT_FLOAT)
			rc = cfg_opt_setnfloat(O, 2.25, vin_idx);
		else
			rc = cfg_opt_setnstr(O, ns, vin_idx);
		if (vin_idx != 0 && !is_listlike()) {
			A09(rc == CFG_FAIL, "[C09] an index beyond a scalar fails");
			assert_untouched();
			V_WITNESS("refused");
		} else {
			unsigned pos = vin_idx < base_n ? vin_idx : base_n;
			unsigned newn = vin_idx < base_n ? base_n : base_n + 1;

			A09(rc == CFG_SUCCESS, "[C09] a typed setter with a legal index succeeds");
			A09(cfg_opt_size(O) == newn, "[C09] setting inside the sequence keeps its length, setting at or beyond its end appends exactly one value");
			A09((O->flags & CFGF_MODIFIED) != 0, "[C09] a successful setter marks the option modified");
			A09((O->flags & CFGF_RESET) == 0, "[C09] an explicitly set option no longer counts as holding defaults");
			if (cfg_opt_size(O) == newn) {
				if (O->type == CFGT_INT)
					A09(cfg_opt_getnint(O, pos) == vin_new, "[C09] the indexed getter returns the value just set");
				if (O->type == CFGT_BOOL)
					A09((long)cfg_opt_getnbool(O, pos) == (vin_new & 1), "[C09] the indexed getter returns the boolean just set");
				if (O->type == CFGT_STR)
					A09(cfg_opt_getnstr(O, pos) != NULL && strcmp(cfg_opt_getnstr(O, pos), ns) == 0, "[C09] the indexed getter returns the string just set");
				for (i = 0; i < NV; i++)
						if (i != pos) {
							if (O->type == CFGT_INT || O->type == CFGT_BOOL)
								A09(obs_num(i) == pre_num[i], "[C09] the other values keep their place and content");
							if (O->type == CFGT_STR)
								A09(cfg_opt_getnstr(O, i) != NULL && cfg_opt_getnstr(O, i)[0] == pre_str[i][0], "[C09] the other strings keep their place and content");
						}
			}
			V_WITNESS("applied");
		}
	}
#elif OP == OP_WRONGTYPE
	{
		V_IN_UINT(vin_idx);

		V_ASSUME(vin_idx <= 4);
		if (O->type == CFGT_INT)
			rc = cfg_opt_setnstr(O, "x", vin_idx);
		else if (O->type == CFGT_STR)
			rc = cfg_opt_setnint(O, 5, vin_idx);
		else if (O->type == CFGT_BOOL)
			rc = cfg_opt_setnfloat(O, 1.0, vin_idx);
		else if (O->type == CFGT_SEC)
			rc = cfg_opt_setnint(O, 5, vin_idx);
		else
			rc = cfg_opt_setnbool(O, cfg_true, vin_idx);
		A09(rc == CFG_FAIL, "[C09] a setter of the wrong type fails");
		assert_untouched();
		V_WITNESS("refused");
	}
#elif OP == OP_SETLIST || OP == OP_ADDLIST
	{
		V_IN_INT(vin_a1);
		V_IN_INT(vin_a2);
		V_IN_UCHAR(vin_c1);
		V_IN_UCHAR(vin_c2);
		char s1[2] = { (char)vin_c1, 0 }, s2[2] = { (char)vin_c2, 0 };
		unsigned base_n;

#if OP == OP_SETLIST
		if (O->type == CFGT_STR)
			rc = N == 0 ? cfg_setlist(&root, "o", 0) : N == 1 ? cfg_setlist(&root, "o", 1, s1) : cfg_setlist(&root, "o", 2, s1, s2);
		else
			rc = N == 0 ? cfg_setlist(&root, "o", 0) : N == 1 ? cfg_setlist(&root, "o", 1, vin_a1) : cfg_setlist(&root, "o", 2, vin_a1, vin_a2);
		base_n = 0;
#else
		if (O->type == CFGT_STR)
			rc = N == 0 ? cfg_addlist(&root, "o", 0) : N == 1 ? cfg_addlist(&root, "o", 1, s1) : cfg_addlist(&root, "o", 2, s1, s2);
		else
			rc = N == 0 ? cfg_addlist(&root, "o", 0) : N == 1 ? cfg_addlist(&root, "o", 1, vin_a1) : cfg_addlist(&root, "o", 2, vin_a1, vin_a2);
		base_n = pre_n; /* appending appends to whatever the option holds, defaults included */
#endif
		if (!(O->flags & CFGF_LIST)) {
			A09(rc == CFG_FAIL, "[C09] list set/append on a non-list option fails");
			assert_untouched();
			V_WITNESS("refused");
		} else {
			A09(rc == CFG_SUCCESS, "[C09] list set/append on a list option succeeds");
			A09(cfg_opt_size(O) == base_n + N, "[C09] list set replaces the sequence, list append extends whatever the option holds (defaults included)");
			if (cfg_opt_size(O) == base_n + N) {
				if (O->type == CFGT_INT) {
					if (N >= 1)
						A09(cfg_opt_getnint(O, base_n) == (long)vin_a1, "[C09] first new element");
					if (N >= 2)
						A09(cfg_opt_getnint(O, base_n + 1) == (long)vin_a2, "[C09] second new element");
					for (i = 0; i < base_n && i < NV; i++)
						A09(cfg_opt_getnint(O, i) == pre_num[i], "[C09] append keeps the existing elements in order");
				} else if (O->type == CFGT_STR) {
					if (N >= 1)
						A09(cfg_opt_getnstr(O, base_n) != NULL && strcmp(cfg_opt_getnstr(O, base_n), s1) == 0, "[C09] first new string element");
					if (N >= 2)
						A09(cfg_opt_getnstr(O, base_n + 1) != NULL && strcmp(cfg_opt_getnstr(O, base_n + 1), s2) == 0, "[C09] second new string element");
					for (i = 0; i < base_n && i < NV; i++)
						A09(cfg_opt_getnstr(O, i) != NULL && cfg_opt_getnstr(O, i)[0] == pre_str[i][0], "[C09] append keeps the existing strings in order");
				}
			}
			if (N >= 1)
				A09((O->flags & CFGF_MODIFIED) != 0, "[C09] a list change marks the option modified");
			V_WITNESS("applied");
		}
	}
#elif OP == OP_SETMULTI
	{
		char vin_t[N][3];
		char *vals[N];
		long want[N];
		int cls[N], bad = -1, grey = 0;
		unsigned k;

		for (k = 0; k < N; k++) {
			V_FILL_STR_AT(vin_t, k, 2);
			vals[k] = vin_t[k];
			want[k] = 0;
			cls[k] = O->type == CFGT_INT ? txt_int(vin_t[k], &want[k]) : 1;
			if (cls[k] == 0 && bad < 0)
				bad = (int)k;
			if (cls[k] < 0)
				grey = 1;
		}
		rc = cfg_opt_setmulti(&root, O, N, vals);
		if (!grey) {
			if (bad >= 0) {
				A10(rc == CFG_FAIL, "[C10] a bulk set with an unconvertible element fails");
				assert_untouched();
				V_WITNESS("refused");
			} else {
				unsigned en = (O->flags & CFGF_LIST) ? N : 1;

				A09(rc == CFG_SUCCESS, "[C09] a bulk set of convertible strings succeeds");
				A09(cfg_opt_size(O) == en, "[C09] a bulk set replaces the old values by the new sequence");
				if (cfg_opt_size(O) == en)
					for (k = 0; k < en; k++) {
						unsigned src = (O->flags & CFGF_LIST) ? k : N - 1;

						if (O->type == CFGT_INT)
							A09(cfg_opt_getnint(O, k) == want[src], "[C09] bulk-set integers in order");
						else
							A09(cfg_opt_getnstr(O, k) != NULL && strcmp(cfg_opt_getnstr(O, k), vin_t[src]) == 0, "[C09] bulk-set strings in order");
					}
				A09((O->flags & CFGF_MODIFIED) != 0, "[C09] a bulk set marks the option modified");
				A07(O->comment == pre_comment, "[C07] a bulk set keeps the option's annotation (neither freed nor lost)");
				A07(pre_comment == NULL || (V_R_OK(O->comment, 2) && O->comment[0] == pre_comment_txt[0]), "[C07] the kept annotation is live");
				V_WITNESS("applied");
			}
		}
	}
#elif OP == OP_ADDTSEC
	{
		/* the title is a concrete obligation parameter (which instance it matches is control) */
		const unsigned char vin_title = NEWTITLE;
		char t[2] = { (char)vin_title, 0 };
		cfg_t *s;
		int exists = 0;

		for (i = 0; i < NV; i++)
			if (SAME_TITLE(vin_title, 'A' + i)) /* in a case-insensitive context titles are compared without case */
				exists = 1;
		s = cfg_addtsec(&root, "o", t);
		if (KIND != KI_SECT && KIND != KI_SECM && KIND != KI_SEC) {
			A09(s == NULL, "[C09] a titled-section add on an option that is not a section fails (wrong type)");
			assert_untouched();
			V_WITNESS("refused");
		} else if (KIND != KI_SECT) {
			/* untitled section kinds: unspecified by the statement, only safety */
		} else if (exists) {
			A09(s == NULL, "[C09] adding a section whose title exists fails (titles stay unique)");
			assert_untouched();
			V_WITNESS("refused");
		} else {
			A09(s != NULL, "[C09] adding a section with a new title succeeds");
			A09(cfg_opt_size(O) == pre_n + 1, "[C09] a new titled section is appended");
			if (s != NULL && cfg_opt_size(O) == pre_n + 1) {
				A09(cfg_opt_getnsec(O, pre_n) == s, "[C09] the new section is the last instance");
				A09(cfg_title(s) != NULL && strcmp(cfg_title(s), t) == 0, "[C09] the new section carries the title");
				A09(cfg_opt_gettsec(O, t) == s, "[C09] the new section is found by its title");
				for (i = 0; i < NV; i++)
					A09(cfg_opt_getnsec(O, i) == pre_sec[i], "[C09] existing sections keep their order");
			}
			V_WITNESS("applied");
		}
	}
#elif OP == OP_RMNSEC || OP == OP_RMTSEC
	{
		V_IN_UINT(vin_idx);
		V_IN_UCHAR(vin_title);
		char t[2] = { (char)vin_title, 0 };
		int hit = -1;
#ifdef WITH_PATH
		/* a search path on the root, shared (borrowed) by every section instance */
		cfg_searchpath_t *sp = malloc(sizeof(cfg_searchpath_t));

		V_ASSUME(sp != NULL);
		sp->dir = heap_str("d");
		sp->next = NULL;
		root.path = sp;
		for (i = 0; i < NV; i++)
			if (O->type == CFGT_SEC)
				O->values[i]->section->path = sp;
#endif
		V_ASSUME(vin_idx <= 4);
		V_ASSUME(vin_title != 0);
#if OP == OP_RMNSEC
		rc = cfg_opt_rmnsec(O, vin_idx);
		if (O->type == CFGT_SEC && vin_idx < pre_n)
			hit = (int)vin_idx;
#else
		rc = cfg_opt_rmtsec(O, t);
		if (KIND == KI_SECT)
			for (i = 0; i < NV; i++)
				if (hit < 0 && SAME_TITLE(vin_title, 'A' + i))
					hit = (int)i;
#endif
		if (hit < 0) {
			A10(rc == CFG_FAIL, "[C10] removing a section that does not exist fails");
			assert_untouched();
			V_WITNESS("refused");
		} else {
			unsigned j = 0;

			A09(rc == CFG_SUCCESS, "[C09] removing an existing section succeeds");
			A09(cfg_opt_size(O) == pre_n - 1, "[C09] removal removes exactly one section");
			if (cfg_opt_size(O) == pre_n - 1)
				for (i = 0; i < NV; i++) {
					if ((int)i == hit)
						continue;
					A09(cfg_opt_getnsec(O, j) == pre_sec[i], "[C09] removal keeps the order of the remaining sections");
					A07(V_R_OK(pre_sec[i], sizeof(cfg_t)), "[C07] the remaining sections are still live");
					j++;
				}
#ifdef WITH_PATH
			A07(root.path == sp && V_R_OK(sp, sizeof(*sp)) && V_R_OK(sp->dir, 2), "[C07] removing a section leaves the root's search path alone");
#endif
			V_WITNESS("applied");
		}
	}
#elif OP == OP_SETOPT_TEXT
	{
		V_IN_STR(vin_text, 2);
		long want = 0;
		int cls = O->type == CFGT_INT ? txt_int(vin_text, &want) : O->type == CFGT_BOOL ? (cfg_parse_boolean(vin_text) < 0 ? 0 : -1) : 1;
		cfg_value_t *r = cfg_setopt(&root, O, vin_text);

		if (cls == 0) {
			A10(r == NULL, "[C10] set-from-text with unconvertible text fails");
			assert_untouched();
			V_WITNESS("refused");
		} else if (cls == 1) {
			A09(r != NULL, "[C09] set-from-text with convertible text succeeds");
			V_WITNESS("applied");
		}
	}
#elif OP == OP_SETNINT_VETO
	{
		V_IN_LONG(vin_new);
		V_IN_INT(vin_veto_rc);
		V_IN_BOOL(vin_rewrite);
		V_IN_LONG(vin_rewritten);

		veto_rc = vin_veto_rc;
		veto_do_rewrite = vin_rewrite;
		veto_rewrite = vin_rewritten;
		O->validcb2 = veto_cb;
#ifdef VIA_WRAPPER
		rc = cfg_setint(&root, "o", vin_new); /* the index-less spelling of the same update */
#else
		rc = cfg_setnint(&root, "o", vin_new, 0);
#endif
		A14(n_veto == 1, "[C14] the pre-set validation callback runs once per by-name set");
		A14(veto_seen == vin_new, "[C14] the pre-set validation callback sees the value about to be set");
		if (vin_veto_rc != 0) {
			A14(rc == CFG_FAIL, "[C14] a pre-set validation callback can veto the set");
			assert_untouched();
			V_WITNESS("refused");
		} else {
			A14(rc == CFG_SUCCESS, "[C14] an approving pre-set validation callback lets the set succeed");
			A14(cfg_opt_getnint(O, 0) == (vin_rewrite ? vin_rewritten : vin_new), "[C14] a pre-set validation callback can rewrite the value");
			V_WITNESS("applied");
		}
	}
#elif OP == OP_SETNSTR_VETO
	{
		V_IN_UINT(vin_idx);
		V_IN_INT(vin_veto_rc);
		V_IN_BOOL(vin_null);
		V_IN_STR(vin_sval, 1);
		const char *arg = vin_null ? NULL : vin_sval;

		V_ASSUME(vin_idx <= NV + 1);
		veto_rc = vin_veto_rc;
		O->validcb2 = veto_cb;
#ifdef VIA_WRAPPER
		V_ASSUME(vin_idx == 0);
		rc = cfg_setstr(&root, "o", arg);
#else
		rc = cfg_setnstr(&root, "o", arg, vin_idx);
#endif
		A14(n_veto == 1 && veto_seen == (const void *)arg, "[C14] the pre-set validation callback runs once per by-name set and sees the value about to be set (string setter, NULL included)");
		if (vin_veto_rc != 0) {
			A10(rc == CFG_FAIL, "[C10] a string setter vetoed by its validation callback fails");
			assert_untouched();
			V_WITNESS("refused");
		} else {
			V_WITNESS("applied");
		}
	}
#elif OP == OP_SETNFLOAT_VETO
	{
		V_IN_UINT(vin_idx);
		V_IN_INT(vin_veto_rc);
		V_IN_INT(vin_fnum);
		double arg = (double)vin_fnum;

		V_ASSUME(vin_idx <= NV + 1);
		veto_rc = vin_veto_rc;
		O->validcb2 = veto_cb;
#ifdef VIA_WRAPPER
		V_ASSUME(vin_idx == 0);
		rc = cfg_setfloat(&root, "o", arg);
#else
		rc = cfg_setnfloat(&root, "o", arg, vin_idx);
#endif
		A14(n_veto == 1 && veto_seen != NULL, "[C14] the pre-set validation callback runs once per by-name set (float setter)");
		if (vin_veto_rc != 0) {
			A10(rc == CFG_FAIL, "[C10] a float setter vetoed by its validation callback fails");
			assert_untouched();
			V_WITNESS("refused");
		} else {
			V_WITNESS("applied");
		}
	}
#endif
	(void)rc;
	(void)i;
	V_WITNESS("end of harness");
	return 0;
}
