/* print_step.c - C19: the real cfg_print_pff_indent / cfg_opt_print_pff_indent / cfg_indent /
 * cfg_opt_nprint_var on a constructed two-level tree, with fprintf() as an event logger, symbolic
 * filter answers at both levels, symbolic "instance has its own filter", symbolic print callbacks.
 *
 * Tree: root { i (int, set)  s (string, unset)  l (int list, 2 values)  m (multi section, 2 harness-built
 *        instances + 1 created by the real cfg_setopt() while another filter was installed)  g (function) }
 *       ... e (int list, emptied) declared last
 *       each m instance { a (int, set)  z (string; unset in instance 1) }
 */
#include <stdio.h>
#include <stdlib.h>
#include <string.h>
#include <stdarg.h>
#include "confuse.h"
#include "verif.h"

static int v_fprintf(FILE *fp, const char *fmt, ...);
/* other stdio output calls a refactored printer might use are routed to the same sink */
static int v_fputs(const char *str, FILE *fp)
{
	const char *q;

	for (q = str; *q; q++)
		if (*q == '%')
			return v_fprintf(fp, "%s", str);
	return v_fprintf(fp, str);
}
static int v_fputc(int c, FILE *fp) { return v_fprintf(fp, "%c", c); }
#define fprintf v_fprintf
#define fputs v_fputs
#define fputc v_fputc
#undef putc
#define putc v_fputc
#include "confuse.c"
#undef fprintf
#undef fputs
#undef fputc
#undef putc
#include "libc_models.h"
#include "build.h"

#ifndef INDENT0
#define INDENT0 0
#endif
#define NOPT 10 /* 6 root options + 2 instances x 2 */
enum { R_I, R_S, R_L, R_M, R_G, R_E, I0_A, I0_Z, I1_A, I1_Z };
#define NROOTOPT 6
#define NINST 2
#ifndef HAS_ROOT
#define HAS_ROOT 1
#endif
#ifndef OWN_INST
#define OWN_INST 1 /* which instance of the multi section carries its own filter (0: the first, so that later siblings must fall back to the inherited one) */
#endif
#ifndef HAS_INST1
#define HAS_INST1 0
#endif
#ifndef PFMASK
#define PFMASK 0
#endif

static cfg_t root;
static cfg_opt_t *ropts;
static cfg_t *inst[NINST];
static cfg_opt_t *optp[NOPT];
static cfg_t *ctx_of[NOPT];
static int depth_of[NOPT];

/* what the logger saw */
static int seq;
static int cur_indent;	/* "  " events since the start of the line */
static int line_hash;	/* "# " seen on this line */
static int cur_opt = -1;
static int printed[NOPT], indent_seen[NOPT], order_seen[NOPT], hash_seen[NOPT], builtin_val[NOPT], cb_val[NOPT];
static int headers[NINST], footers, header_order[NINST], header_indent[NINST], footer_after[NINST];
static int open_inst = -1;
static int bad_events;

static int find_opt_by_name(const char *name)
{
	int k;

	for (k = 0; k < NOPT; k++)
		if (optp[k] != NULL && optp[k]->name == name)
			return k;
	return -1;
}

static int v_fprintf(FILE *fp, const char *fmt, ...)
{
	va_list ap;
	const char *a1 = NULL;

	(void)fp;
	va_start(ap, fmt);
	if (!strcmp(fmt, "  ")) {
		cur_indent++;
	} else if (!strcmp(fmt, "# ")) {
		line_hash = 1;
	} else if (!strcmp(fmt, "%s=") || !strcmp(fmt, "%s = {")) {
		int k;

		a1 = va_arg(ap, const char *);
		k = find_opt_by_name(a1);
		if (k < 0) {
			bad_events++;
		} else {
			printed[k]++;
			indent_seen[k] = cur_indent;
			order_seen[k] = seq++;
			hash_seen[k] = line_hash;
			cur_opt = k;
		}
	} else if (!strcmp(fmt, "%s {\n") || !strcmp(fmt, "%s \"%s\" {\n")) {
		/* section header: instances of m are printed in order */
		int j = headers[0] + headers[1];

		a1 = va_arg(ap, const char *);
		if (a1 != optp[R_M]->name || j >= NINST) {
			bad_events++;
		} else {
			headers[j]++;
			header_order[j] = seq++;
			header_indent[j] = cur_indent;
			open_inst = j;
		}
		cur_indent = 0;
		line_hash = 0;
	} else if (!strcmp(fmt, "}\n")) {
		if (open_inst >= 0)
			footer_after[open_inst] = seq++;
		footers++;
		open_inst = -1;
		cur_indent = 0;
		line_hash = 0;
	} else if (!strcmp(fmt, "\n")) {
		cur_indent = 0;
		line_hash = 0;
		cur_opt = -1;
	} else if (!strcmp(fmt, "%ld") || !strcmp(fmt, "%f") || !strcmp(fmt, "\"") || !strcmp(fmt, "%c") || !strcmp(fmt, "\\\"") || !strcmp(fmt, "\\\\") ||
		   !strcmp(fmt, "%s")) {
		if (cur_opt >= 0 && (!strcmp(fmt, "%ld") || !strcmp(fmt, "\"")))
			builtin_val[cur_opt]++;
	} else if (!strcmp(fmt, "%s \"") || !strcmp(fmt, "\" {\n")) {
		/* titled section header in two pieces (not used by this tree) */
	} else if (!strcmp(fmt, ", ") || !strcmp(fmt, "}")) {
		/* list separators / list end */
	} else if (!strcmp(fmt, "/* %s */\n")) {
		cur_indent = 0;
	} else {
		bad_events++;
	}
	va_end(ap);
	return 0;
}

/* filters: symbolic answer tables; which filter was asked is recorded */
static int tabR[NOPT], tabI[NOPT], tabOld[NOPT];
static int asked_R[NOPT], asked_I[NOPT], asked_Old[NOPT], wrong_ctx;
static int id_of(cfg_opt_t *o)
{
	int k;

	for (k = 0; k < NOPT; k++)
		if (optp[k] == o)
			return k;
	return -1;
}
static int filt_root(cfg_t *cfg, cfg_opt_t *opt)
{
	int k = id_of(opt);

	if (k < 0 || cfg != ctx_of[k]) {
		wrong_ctx++;
		return 0;
	}
	asked_R[k]++;
	return tabR[k];
}
static int filt_inst(cfg_t *cfg, cfg_opt_t *opt)
{
	int k = id_of(opt);

	if (k < 0 || cfg != ctx_of[k]) {
		wrong_ctx++;
		return 0;
	}
	asked_I[k]++;
	return tabI[k];
}
static int filt_old(cfg_t *cfg, cfg_opt_t *opt)
{
	int k = id_of(opt);

	(void)cfg;
	if (k >= 0)
		asked_Old[k]++;
	return k >= 0 ? tabOld[k] : 0;
}

/* print callbacks */
static int has_pf[NOPT];
static void pf_cb(cfg_opt_t *opt, unsigned int index, FILE *fp)
{
	int k = id_of(opt);

	(void)index;
	(void)fp;
	if (k >= 0)
		cb_val[k]++;
}

static void mk_inst(int j, int z_set)
{
	cfg_t *sec = malloc(sizeof(cfg_t));
	cfg_opt_t *o = alloc_opts(2);

	V_ASSUME(sec != NULL);
	init_opt(&o[0], "a", CFGT_INT, CFGF_DEFINIT);
	alloc_values(&o[0], 1);
	o[0].values[0]->number = 7;
	init_opt(&o[1], "z", CFGT_STR, CFGF_DEFINIT);
	if (z_set) {
		alloc_values(&o[1], 1);
		o[1].values[0]->string = heap_str("q");
	}
	init_cfg(sec, "m", o, CFGF_NONE);
	inst[j] = sec;
}

int main(void)
{
	static cfg_opt_t sub[] = { CFG_INT("a", 7, CFGF_NONE), CFG_STR("z", NULL, CFGF_NODEFAULT), CFG_END() };
	int k, j, has_root, has_inst1, rc;
	(void)tabOld;
	(void)filt_old;
	cfg_print_filter_func_t eff[NOPT];

	ropts = alloc_opts(NROOTOPT);
	init_opt(&ropts[0], "i", CFGT_INT, CFGF_DEFINIT);
	alloc_values(&ropts[0], 1);
	ropts[0].values[0]->number = 3;
#ifdef SIMPLE_I
	{
		/* CFG_SIMPLE_INT: the value lives in the application's variable, the option itself holds no value cell */
		static long simple_i = 3;

		ropts[0].simple_value.number = &simple_i;
		ropts[0].nvalues = 0;
		ropts[0].values = NULL;
	}
#endif
	init_opt(&ropts[1], "s", CFGT_STR, CFGF_DEFINIT);
	alloc_values(&ropts[1], 1);
	ropts[1].values[0]->string = NULL; /* unset string */
	init_opt(&ropts[2], "l", CFGT_INT, CFGF_LIST | CFGF_DEFINIT);
	alloc_values(&ropts[2], 2);
	ropts[2].values[0]->number = 1;
	ropts[2].values[1]->number = 2;
	init_opt(&ropts[3], "m", CFGT_SEC, CFGF_MULTI);
	ropts[3].subopts = sub;
	init_opt(&ropts[4], "g", CFGT_FUNC, CFGF_NONE);
	init_opt(&ropts[5], "e", CFGT_INT, CFGF_LIST | CFGF_DEFINIT); /* a list that has been emptied */
	init_cfg(&root, "root", ropts, CFGF_NONE);
	mk_inst(0, 1);
	mk_inst(1, 0);
	alloc_values(&ropts[3], 2);
	ropts[3].values[0]->section = inst[0];
	ropts[3].values[1]->section = inst[1];

	for (k = 0; k < NROOTOPT; k++) {
		optp[k] = &ropts[k];
		ctx_of[k] = &root;
		depth_of[k] = 0;
	}
	for (j = 0; j < NINST; j++) {
		optp[I0_A + 2 * j] = &inst[j]->opts[0];
		optp[I0_Z + 2 * j] = &inst[j]->opts[1];
		ctx_of[I0_A + 2 * j] = ctx_of[I0_Z + 2 * j] = inst[j];
		depth_of[I0_A + 2 * j] = depth_of[I0_Z + 2 * j] = 1;
	}
	V_IN_UINT(vin_trmask); /* filter answers: one bit per option (inputs outside the loop so that a replay sees each one) */
	V_IN_UINT(vin_timask);
	for (k = 0; k < NOPT; k++) {
		tabR[k] = (vin_trmask >> k) & 1;
		tabI[k] = (vin_timask >> k) & 1;
		/* which options carry a print callback is a concrete parameter (bit mask) */
		has_pf[k] = ((PFMASK >> k) & 1) && optp[k]->type != CFGT_SEC;
		if (has_pf[k])
			cfg_opt_set_print_func(optp[k], pf_cb);
	}
	has_root = HAS_ROOT;
	has_inst1 = HAS_INST1;
	/* now the filters the print has to honour */
#if HAS_ROOT == 2
	/* induction step for any nesting depth: the tree's top context has no filter of its own and is printed
	 * by the recursive function with an INHERITED filter, as an intermediate section is; it must apply that
	 * filter to its own options and hand it down to its sections */
	cfg_set_print_filter_func(&root, NULL);
	if (has_inst1)
		cfg_set_print_filter_func(inst[OWN_INST], filt_inst);
	rc = cfg_print_pff_indent(&root, (FILE *)&root, filt_root, INDENT0) == 0 ? CFG_SUCCESS : CFG_FAIL;
#else
	cfg_set_print_filter_func(&root, has_root ? filt_root : NULL);
	if (has_inst1)
		cfg_set_print_filter_func(inst[OWN_INST], filt_inst);

	rc = cfg_print_indent(&root, (FILE *)&root, INDENT0);
#endif
	V_ASSERT(rc == CFG_SUCCESS, "[C19] printing succeeds");
	V_ASSERT(bad_events == 0, "[C19] nothing but option lines, section brackets and values is written");
	V_ASSERT(wrong_ctx == 0, "[C19] a filter is asked about an option together with the context that owns it");

	for (k = 0; k < NOPT; k++) {
		int filtered, sec_filtered = 0, own = 0;

		/* effective filter: own filter of the context, else the one inherited from the parent */
		if (ctx_of[k] == &root) {
			eff[k] = has_root ? filt_root : NULL;
		} else {
			own = (ctx_of[k] == inst[OWN_INST] && has_inst1);
			eff[k] = own ? filt_inst : (has_root ? filt_root : NULL);
			sec_filtered = has_root && tabR[R_M];
		}
		filtered = eff[k] == filt_root ? tabR[k] : eff[k] == filt_inst ? tabI[k] : 0;
		V_ASSERT(asked_Old[k] == 0, "[C19] a filter that is no longer installed is never consulted (sections inherit at print time)");
		if (sec_filtered) {
			V_ASSERT(printed[k] == 0 && asked_R[k] == 0 && asked_I[k] == 0, "[C19] nothing inside a filtered-out section is written");
			continue;
		}
		if (k == R_M) {
			int n = filtered ? 0 : NINST;

			V_ASSERT(headers[0] + headers[1] == n && footers == n, "[C19] every instance of an unfiltered section is written exactly once, a filtered one not at all");
			continue;
		}
		if (k == R_G) {
			V_ASSERT(printed[k] == 0, "[C19] a function option has no assignment line");
			V_ASSERT(cb_val[k] == ((has_pf[k] && !filtered) ? 1 : 0), "[C19] a function option is written only through its print callback");
			continue;
		}
		V_ASSERT(printed[k] == (filtered ? 0 : 1), "[C19] each option the effective filter accepts is written exactly once, the others not at all");
		if (filtered || printed[k] != 1)
			continue;
		V_ASSERT(indent_seen[k] == INDENT0 + depth_of[k], "[C19] an option is indented by its nesting depth");
		{
			int unset = optp[k]->type == CFGT_STR && !(optp[k]->flags & CFGF_LIST) && (optp[k]->nvalues == 0 || optp[k]->values[0]->string == NULL);
			int nvals = (optp[k]->flags & CFGF_LIST) ? (int)optp[k]->nvalues : 1;

			V_ASSERT(hash_seen[k] == unset, "[C19] a scalar option without a value is written commented out, others are not");
			if (has_pf[k]) {
				V_ASSERT(cb_val[k] == nvals && builtin_val[k] == 0, "[C19] a print callback replaces the built-in formatting of every value of exactly that option");
			} else {
				V_ASSERT(cb_val[k] == 0, "[C19] no print callback is invoked for an option that has none");
				if (!unset && optp[k]->type == CFGT_INT)
					V_ASSERT(builtin_val[k] == nvals, "[C19] every value of an option without callback is formatted by the library");
			}
		}
	}
	/* declaration order, bodies between their brackets */
	{
		int last = -1;

		for (k = 0; k < 3; k++)
			if (printed[k] == 1) {
				V_ASSERT(order_seen[k] > last, "[C19] options are written in declaration order");
				last = order_seen[k];
			}
		for (j = 0; j < NINST; j++)
			if (headers[j] == 1) {
				V_ASSERT(header_order[j] > last, "[C19] section instances follow the earlier options, in instance order");
				V_ASSERT(header_indent[j] == INDENT0, "[C19] a section header is indented by its nesting depth");
				last = header_order[j];
				for (k = 0; k < 2; k++) {
					int id = I0_A + 2 * j + k;

					if (printed[id] == 1) {
						V_ASSERT(order_seen[id] > last && order_seen[id] < footer_after[j], "[C19] a section's options are written between its brackets, in declaration order");
						last = order_seen[id];
					}
				}
				last = footer_after[j];
			}
		if (printed[R_E] == 1)
			V_ASSERT(order_seen[R_E] > last, "[C19] an option declared after a section is written after that section's instances");
	}
	V_WITNESS("end of harness");
	return 0;
}
