/* flex_input.c - C02/C13: the REAL flex-generated refill function yy_get_next_buffer() (from the lexer.c
 * that flex produces from /repo's lexer.l on this run) with a source that cannot be read - fread()
 * returns 0 and ferror() is set, which is what a directory or another special file opened with fopen()
 * gives.  Question decided: can the host process be terminated from here? */
#include <stdio.h>
#include <stdlib.h>
#include <string.h>
#include <errno.h>
#include "verif.h"
#include <unistd.h>

static int n_exit, exit_code;
static void v_exit(int code)
{
	n_exit++;
	exit_code = code;
	V_ASSERT(0, "[C02] an unreadable input source (directory, special file) does not terminate the host process");
	V_CUT();
}
static int rd_error;
static size_t v_fread(void *p, size_t sz, size_t n, FILE *fp)
{
	(void)p;
	(void)sz;
	(void)n;
	(void)fp;
	return 0; /* nothing can be read */
}
static int v_ferror(FILE *fp)
{
	(void)fp;
	return rd_error;
}
static int v_fprintf(FILE *fp, const char *fmt, ...)
{
	(void)fp;
	(void)fmt;
	return 0;
}
#define exit v_exit
#define fread v_fread
#define ferror v_ferror
#define fprintf v_fprintf
#define getenv(x) ((char *)0)
#define sscanf(a, b, c) 0
#define clearerr(x) ((void)0)
#define isatty(x) 0
#define fileno(x) 0
char *cfg_yylval;
#include "confuse.h"
void cfg_error(cfg_t *cfg, const char *fmt, ...) { (void)cfg; (void)fmt; }
char *cfg_searchpath(cfg_searchpath_t *p, const char *file) { (void)p; (void)file; return NULL; }
char *cfg_tilde_expand(const char *filename) { (void)filename; return NULL; }
#include "lexer.c" /* the real flex output, generated into the scratch directory on this run */

int main(void)
{
	static FILE fake;
	int r;
	V_IN_BOOL(vin_read_error);
	V_IN_INT(vin_errno);

	rd_error = vin_read_error;
	errno = vin_errno;
	cfg_yyin = &fake;
	cfg_scan_fp_begin(&fake); /* real yy_create_buffer + yypush_buffer_state */
	V_ASSUME(YY_CURRENT_BUFFER != NULL);
	/* the scanner has consumed the (empty) buffer and asks for more input */
	(yy_c_buf_p) = &YY_CURRENT_BUFFER_LVALUE->yy_ch_buf[(yy_n_chars) + 1];
	(yytext_ptr) = YY_CURRENT_BUFFER_LVALUE->yy_ch_buf;
	r = yy_get_next_buffer();
	V_ASSERT(r == EOB_ACT_END_OF_FILE || r == EOB_ACT_LAST_MATCH || r == EOB_ACT_CONTINUE_SCAN, "[C02] the refill function reports one of its three outcomes");
	V_WITNESS("returned");
	V_WITNESS("end of harness");
	return 0;
}
