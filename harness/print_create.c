/* print_create.c - C19 (filter inheritance is decided at print time): a section instance created by
 * the real cfg_setopt() / cfg_addtsec() while a filter is installed on its parent has no filter of its
 * own, so that a later change of the parent's filter applies to it. */
#include <stdio.h>
#include <stdlib.h>
#include <string.h>
#include "confuse.h"
#include "verif.h"
#include "confuse.c"
#include "libc_models.h"
#include "build.h"

static int some_filter(cfg_t *cfg, cfg_opt_t *opt)
{
	(void)cfg;
	(void)opt;
	return 1;
}

int main(void)
{
	static cfg_opt_t sub[] = { CFG_INT("a", 7, CFGF_NONE), CFG_END() };
	cfg_opt_t *ropts = alloc_opts(2);
	cfg_t root;
	cfg_value_t *v;
	cfg_t *s;

	init_opt(&ropts[0], "m", CFGT_SEC, CFGF_MULTI);
	ropts[0].subopts = sub;
	init_opt(&ropts[1], "t", CFGT_SEC, CFGF_MULTI | CFGF_TITLE);
	ropts[1].subopts = sub;
	init_cfg(&root, "root", ropts, CFGF_NONE);
	cfg_set_print_filter_func(&root, some_filter);

	v = cfg_setopt(&root, &ropts[0], NULL);
	V_ASSERT(v != NULL && v->section != NULL, "[C19] section instance created");
	if (v != NULL && v->section != NULL)
		V_ASSERT(v->section->pff == NULL, "[C19] a section created while its parent has a filter gets no filter of its own (inheritance happens at print time)");
	s = cfg_addtsec(&root, "t", "x");
	V_ASSERT(s != NULL, "[C19] titled section instance created");
	if (s != NULL)
		V_ASSERT(s->pff == NULL, "[C19] a titled section added while its parent has a filter gets no filter of its own");
	V_WITNESS("end of harness");
	return 0;
}
