/* path_res.c - C11: the real path resolver (cfg_getopt_secidx, parse_title, cfg_opt_gettsecidx,
 * cfg_opt_getnsec) through its public entry points, on SHAPED paths: the segmentation of the path (the
 * positions of '|', '=', quotes and backslashes) is a concrete obligation parameter, every other byte is
 * symbolic.  Oracle: a stepwise walk of the tree with single-level look-ups written in the harness.
 *
 *   -DSHAPE="N=Q|N"   N name byte, Q unquoted qualifier byte, q byte inside quotes, e escaped byte
 *                     (one of ' and \), every other character stands for itself
 *   -DFN=1 cfg_getopt  2 cfg_getsec  3 cfg_rmsec  4 cfg_setint/cfg_getint
 *
 * Tree: root { i (int)  s (single section)  m (multi section x2)  t (titled multi section x2: "p","q") },
 *       every section instance { a (int, 7)  z (string) }, s additionally { n (single section) }.
 */
#include <stdio.h>
#include <stdlib.h>
#include <string.h>
#include "confuse.h"
#include "verif.h"
#ifndef CAP
#define CAP 8 /* capacity of the string-copy models and of the reference's title buffer */
#endif
/* -DFAIL_AT=k (C18): the k-th string copy made by the resolver fails (concrete k, one fault per run) */
#ifdef FAIL_AT
static int n_alloc_calls, alloc_failed;
#define MAYFAIL() (++n_alloc_calls == FAIL_AT ? (alloc_failed = 1) : 0)
#else
#define alloc_failed 0
#define MAYFAIL() 0
#endif
#ifdef __CPROVER__
static char *v_strndup8(const char *s, size_t n)
{
	char *r;
	size_t i;

	if (MAYFAIL())
		return NULL;
	r = malloc(CAP);

	for (i = 0; i < n && i < CAP - 1 && s[i]; i++)
		r[i] = s[i];
	r[i] = 0;
	return r;
}
static char *v_strdup8(const char *s) { return v_strndup8(s, CAP - 1); }
#ifndef EXACT_ALLOC
#define strndup v_strndup8
#define strdup v_strdup8
#endif
/* memmove: the value vector (cfg_opt_rmnsec, n >= 8) element-wise, strings (parse_title, n <= 7) byte-wise */
static void *v_memmove(void *dst, const void *src, size_t n)
{
	if (n >= sizeof(void *)) {
		void **d = dst;
		void *const *sp = src;
		size_t cnt = n / sizeof(void *), i;

		for (i = 0; i < cnt; i++)
			d[i] = sp[i];
		return dst;
	}
	return memmove(dst, src, n);
}
#define memmove v_memmove
#define nondet_char_or_replay(i) nondet_char()
#else
#ifdef FAIL_AT
static char *f_strndup(const char *s, size_t n) { return MAYFAIL() ? NULL : strndup(s, n); }
static char *f_strdup(const char *s) { return MAYFAIL() ? NULL : strdup(s); }
#define strndup f_strndup
#define strdup f_strdup
#endif
static char nondet_char_or_replay(int i)
{
	char key[32];
	long long v = 0;

	snprintf(key, sizeof(key), "vin_path[%d]", i);
	v_lookup(key, &v);
	return (char)v;
}
#endif
#ifndef CTXF
#define CTXF 0
#endif
#include "confuse.c"
#define VM_NO_STRNDUP
#include "libc_models.h"
#include "build.h"

#ifndef SHAPE
#define SHAPE "N"
#endif
#define PLEN ((int)sizeof(SHAPE) - 1)

static cfg_t root;
static cfg_opt_t *ropts;
static cfg_t *sec_s, *sec_n, *sec_m[2], *sec_t[2];
static char vin_path[PLEN + 1];

/* ---- reference: stepwise navigation ---- */
static cfg_opt_t *ref_leaf(cfg_t *c, const char *name, int len)
{
	int i;

	for (i = 0; c->opts[i].name; i++)
		if ((int)strlen(c->opts[i].name) == len && memcmp(c->opts[i].name, name, (size_t)len) == 0)
			return &c->opts[i];
	return NULL;
}

struct ref_res {
	int ok;		/* 1 resolved, 0 not found, -1 grey (outside what the statement fixes) */
	cfg_opt_t *opt; /* option addressed (FN 1/4), or the section option of the last step (FN 2/3) */
	cfg_t *sec;	/* section addressed (FN 2/3) */
	long idx;
};

/* walk the concrete SHAPE and the symbolic bytes together */
static void ref_walk(int want_section, struct ref_res *r)
{
	const char *sh = SHAPE;
	cfg_t *cur = &root;
	int i = 0;

	r->ok = 0;
	r->opt = NULL;
	r->sec = NULL;
	r->idx = -1;
	if (PLEN == 0)
		return;
	while (1) {
		int ns = i, nl, has_q = 0, qs = 0, ql = 0, quoted = 0, bad = 0, last;
		char title[CAP];
		int tl = 0;
		cfg_opt_t *o;
		long idx = 0;

		while (sh[i] == 'N')
			i++;
		nl = i - ns;
		if (nl == 0)
			return; /* empty name: leading / doubled / trailing separator or stray '=' */
		if (sh[i] == '=') {
			has_q = 1;
			i++;
			if (sh[i] == '\'') {
				quoted = 1;
				i++;
				qs = i;
				while (sh[i] && sh[i] != '\'') {
					if (sh[i] == '\\') {
						i++;
						if (sh[i] != 'e') {
							bad = 1; /* backslash before anything but ' and \ */
							if (sh[i])
								i++;
							continue;
						}
					}
					if (tl < 7)
						title[tl++] = vin_path[i];
					i++;
				}
				if (sh[i] != '\'')
					return; /* unterminated quote */
				i++;
				if (bad)
					return;
			} else {
				qs = i;
				while (sh[i] == 'Q' || sh[i] == 'D')
					i++;
				ql = i - qs;
				if (ql == 0)
					return; /* empty qualifier */
				for (tl = 0; tl < ql && tl < CAP - 1; tl++)
					title[tl] = vin_path[qs + tl];
			}
			title[tl] = 0;
		}
		last = (sh[i] == 0);
		if (!last && sh[i] != '|')
			return; /* text glued to a closing quote etc.: malformed */
		if (last && !want_section) {
			/* final step of an option path */
			if (has_q)
				return;
			o = ref_leaf(cur, vin_path + ns, nl);
			if (!o)
				return;
			r->ok = 1;
			r->opt = o;
			return;
		}
		/* a section step */
		o = ref_leaf(cur, vin_path + ns, nl);
		if (!o || o->type != CFGT_SEC)
			return;
		if (has_q) {
			if (!(o->flags & CFGF_MULTI))
				return; /* qualifier on a single section */
			if (o->flags & CFGF_TITLE) {
				unsigned k;

				idx = -1;
				for (k = 0; k < o->nvalues; k++)
					if (strcmp(o->values[k]->section->title, title) == 0) {
						idx = (long)k;
						break;
					}
			} else {
				int k;

				/* a plain decimal index.  What else the lenient strtol(.., 0) may take as a number (leading
				 * blanks, a sign, octal, hex) is grey; a decimal digit 1-9 followed by anything but digits,
				 * or a 0 followed by something that cannot continue an octal/hex numeral, is not a number
				 * and - the section having no titles - addresses nothing */
				idx = 0;
				if (title[0] >= '1' && title[0] <= '9') {
					for (k = 0; k < tl; k++) {
						if (title[k] < '0' || title[k] > '9')
							return;
						idx = idx * 10 + (title[k] - '0');
					}
				} else if (title[0] == '0') {
					if (tl > 1) {
						if (!((title[1] >= '0' && title[1] <= '7') || title[1] == 'x' || title[1] == 'X'))
							return;
						r->ok = -1;
						return;
					}
				} else {
					r->ok = -1;
					return;
				}
			}
		}
		if (idx < 0 || (unsigned long)idx >= o->nvalues)
			return;
		cur = o->values[idx]->section;
		if (last) {
			r->ok = 1;
			r->opt = o;
			r->sec = cur;
			r->idx = idx;
			return;
		}
		i++; /* the '|' */
		if (sh[i] == 0)
			return; /* trailing separator */
	}
}

#if FN == 5
static cfg_opt_t sub_decl[] = { CFG_INT("a", 7, CFGF_NONE), CFG_STR("z", "q", CFGF_NONE), CFG_END() };
#endif

static cfg_opt_t *mk_root(void)
{
	cfg_opt_t *o = alloc_opts(4);
	int k;

	init_opt(&o[0], "i", CFGT_INT, CFGF_DEFINIT);
	alloc_values(&o[0], 1);
	o[0].values[0]->number = 3;
	init_opt(&o[1], "s", CFGT_SEC, CFGF_DEFINIT);
	alloc_values(&o[1], 1);
	sec_s = o[1].values[0]->section = mk_section2("s", NULL, CTXF);
	{
		/* s additionally holds a nested multi section n { a z } x2 (two section steps in one path) */
		cfg_opt_t *o3 = alloc_opts(3);

		o3[0] = sec_s->opts[0];
		o3[1] = sec_s->opts[1];
		/* n is a MULTI section with two instances: index resolution (and every way it can fail) is exercised
		 * at the second step of a path too, after a first step that selected instance 0 */
		init_opt(&o3[2], "n", CFGT_SEC, CFGF_MULTI);
		alloc_values(&o3[2], 2);
		sec_n = o3[2].values[0]->section = mk_section2("n", NULL, CTXF);
		o3[2].values[1]->section = mk_section2("n", NULL, CTXF);
		sec_s->opts = o3;
	}
	init_opt(&o[2], "m", CFGT_SEC, CFGF_MULTI);
	alloc_values(&o[2], 2);
	for (k = 0; k < 2; k++)
		sec_m[k] = o[2].values[k]->section = mk_section2("m", NULL, CTXF);
	init_opt(&o[3], "t", CFGT_SEC, CFGF_MULTI | CFGF_TITLE);
	alloc_values(&o[3], 2);
	sec_t[0] = o[3].values[0]->section = mk_section2("t", "p", CTXF);
	sec_t[1] = o[3].values[1]->section = mk_section2("t", "q", CTXF);
#if FN == 5
	o[1].subopts = o[2].subopts = o[3].subopts = sub_decl; /* the declarations the instances were copied from */
#endif
	return o;
}

#if FN == 5
static void pfn(cfg_opt_t *opt, unsigned int index, FILE *fp) { (void)opt; (void)index; (void)fp; }
#endif

int main(void)
{
	const char *sh = SHAPE;
	struct ref_res rr;
	int i;

	ropts = mk_root();
	init_cfg(&root, "root", ropts, CTXF);
	for (i = 0; i < PLEN; i++) {
		if (sh[i] == 'N') {
			vin_path[i] = nondet_char_or_replay(i);
			V_ASSUME(vin_path[i] != 0 && vin_path[i] != '|' && vin_path[i] != '=');
		} else if (sh[i] == 'D') { /* a decimal digit of a long index qualifier */
			vin_path[i] = nondet_char_or_replay(i);
			V_ASSUME(vin_path[i] >= '0' && vin_path[i] <= '9');
		} else if (sh[i] == 'Q') {
			vin_path[i] = nondet_char_or_replay(i);
			V_ASSUME(vin_path[i] != 0 && vin_path[i] != '|' && vin_path[i] != '\'' && vin_path[i] != '\\');
		} else if (sh[i] == 'q') {
			vin_path[i] = nondet_char_or_replay(i);
			V_ASSUME(vin_path[i] != 0 && vin_path[i] != '\'' && vin_path[i] != '\\');
		} else if (sh[i] == 'e') {
			vin_path[i] = nondet_char_or_replay(i);
			V_ASSUME(vin_path[i] == '\'' || vin_path[i] == '\\');
		} else if (sh[i] == 'x') {
			vin_path[i] = nondet_char_or_replay(i);
			V_ASSUME(vin_path[i] != 0 && vin_path[i] != '\'' && vin_path[i] != '\\'); /* after a backslash: a bad escape */
		} else {
			vin_path[i] = sh[i];
		}
	}
	vin_path[PLEN] = 0;

#if FN == 1
	{
		cfg_opt_t *o;

		ref_walk(0, &rr);
		o = cfg_getopt(&root, vin_path);
		if (alloc_failed) {
			V_ASSERT(o == NULL, "[C18] a look-up whose allocation fails reports not-found (never the option of an earlier step)");
			V_WITNESS("allocation failed");
		} else if (rr.ok == 1) {
			V_ASSERT(o == rr.opt, "[C11] a by-path look-up addresses exactly the option reached by stepwise navigation");
			V_WITNESS("resolved");
		} else if (rr.ok == 0) {
			V_ASSERT(o == NULL, "[C11] a path that does not resolve yields not-found");
			V_WITNESS("not found");
		}
	}
#elif FN == 2
	{
		cfg_t *s;

		ref_walk(1, &rr);
		s = cfg_getsec(&root, vin_path);
		if (alloc_failed) {
			V_ASSERT(s == NULL, "[C18] a section look-up whose allocation fails reports not-found (never the section of an earlier step)");
			V_WITNESS("allocation failed");
		} else if (rr.ok == 1) {
			V_ASSERT(s == rr.sec, "[C11] a by-path section look-up addresses exactly the instance reached by stepwise navigation (first instance when unqualified)");
			V_WITNESS("resolved");
		} else if (rr.ok == 0) {
			V_ASSERT(s == NULL, "[C11] a section path that does not resolve yields not-found");
			V_WITNESS("not found");
		}
	}
#elif FN == 3
	{
		int rc;
		unsigned n_m = ropts[2].nvalues, n_t = ropts[3].nvalues, n_s = ropts[1].nvalues;

		ref_walk(1, &rr);
		rc = cfg_rmsec(&root, vin_path);
		if (alloc_failed) {
			V_ASSERT(rc != CFG_SUCCESS, "[C18] a removal whose allocation fails reports failure");
			V_ASSERT(ropts[2].nvalues == n_m && ropts[3].nvalues == n_t && ropts[1].nvalues == n_s && ropts[2].values[0]->section == sec_m[0] && ropts[2].values[1]->section == sec_m[1] &&
					 ropts[3].values[0]->section == sec_t[0] && ropts[3].values[1]->section == sec_t[1] && ropts[1].values[0]->section == sec_s,
				 "[C18] a removal whose allocation fails removes nothing");
			V_WITNESS("allocation failed");
		} else if (rr.ok == 1) {
			V_ASSERT(rc == CFG_SUCCESS, "[C11] removing by path succeeds for a path that resolves");
			V_ASSERT(rr.opt->nvalues + 1 == (rr.opt == &ropts[2] ? n_m : rr.opt == &ropts[3] ? n_t : rr.opt == &ropts[1] ? n_s : rr.opt->nvalues + 1), "[C11] removing by path removes one instance of exactly the addressed section");
			for (i = 0; i < (int)rr.opt->nvalues; i++)
				V_ASSERT(rr.opt->values[i]->section != rr.sec, "[C11] the addressed instance is the one removed");
			V_WITNESS("resolved");
		} else if (rr.ok == 0) {
			V_ASSERT(rc != CFG_SUCCESS, "[C11] removing by a path that does not resolve fails");
			V_ASSERT(ropts[2].nvalues == n_m && ropts[3].nvalues == n_t && ropts[1].nvalues == n_s && ropts[2].values[0]->section == sec_m[0] && ropts[2].values[1]->section == sec_m[1] &&
					 ropts[3].values[0]->section == sec_t[0] && ropts[3].values[1]->section == sec_t[1] && ropts[1].values[0]->section == sec_s,
				 "[C11] a path that does not resolve changes nothing");
			V_WITNESS("not found");
		}
	}
#elif FN == 4
	{
		int rc;
		V_IN_LONG(vin_v);

		ref_walk(0, &rr);
		rc = cfg_setint(&root, vin_path, vin_v);
		if (rr.ok == 1 && rr.opt->type == CFGT_INT) {
			V_ASSERT(rc == CFG_SUCCESS && cfg_opt_getnint(rr.opt, 0) == vin_v, "[C11] a by-path setter changes exactly the option reached by stepwise navigation");
			V_WITNESS("resolved");
		} else if (rr.ok == 0) {
			V_ASSERT(rc != CFG_SUCCESS, "[C11] a by-path setter on a path that does not resolve fails");
			V_ASSERT(cfg_opt_getnint(&ropts[0], 0) == 3 && cfg_opt_getnint(&sec_s->opts[0], 0) == 7 && cfg_opt_getnint(&sec_m[0]->opts[0], 0) == 7 && cfg_opt_getnint(&sec_m[1]->opts[0], 0) == 7 &&
					 cfg_opt_getnint(&sec_t[0]->opts[0], 0) == 7 && cfg_opt_getnint(&sec_t[1]->opts[0], 0) == 7,
				 "[C11] a by-path setter on a path that does not resolve changes nothing");
			V_WITNESS("not found");
		}
	}
#elif FN == 5
	{
		/* C19: the by-name registration of a print callback lands on exactly the option the path addresses */
		cfg_print_func_t oldpf;
		int n_set;

		ref_walk(0, &rr);
		oldpf = cfg_set_print_func(&root, vin_path, pfn);
#define PF2(c) (((c)->opts[0].pf != NULL) + ((c)->opts[1].pf != NULL))
		n_set = (ropts[0].pf != NULL) + (ropts[1].pf != NULL) + (ropts[2].pf != NULL) + (ropts[3].pf != NULL) + PF2(sec_s) + (sec_s->opts[2].pf != NULL) + PF2(sec_n) + PF2(sec_m[0]) + PF2(sec_m[1]) + PF2(sec_t[0]) + PF2(sec_t[1]) +
			(sub_decl[0].pf != NULL) + (sub_decl[1].pf != NULL);
		V_ASSERT(oldpf == NULL, "[C19] there was no print callback before");
		if (rr.ok == 1) {
			V_ASSERT(rr.opt->pf == pfn && n_set == 1, "[C19] a print callback registered by name is installed on exactly the option the name or path addresses (first instance of a multi section), not on the declarations");
			V_WITNESS("resolved");
		} else if (rr.ok == 0) {
			V_ASSERT(n_set == 0, "[C19] a print callback registered by a name that does not resolve is installed nowhere");
			V_WITNESS("not found");
		}
	}
#endif
	V_WITNESS("end of harness");
	return 0;
}
