/* parse_step.c - ONE step (one token) of the real cfg_parse_internal() automaton from a
 * harness-built valid state, through the guarded hook LIBCONFUSE_VERIF_PARSE_STEP().
 *
 * Code under test (verbatim from /repo/src/confuse.c): the cfg_parse_internal() loop body for the
 * chosen state, cfg_setopt, cfg_addval, cfg_free_value, cfg_free, cfg_addopt, cfg_getopt (leaf
 * lookup), cfg_handle_deprecated, call_function, cfg_opt_setcomment, cfg_dupopt_array,
 * cfg_init_defaults (for new section instances), cfg_error.
 *
 * Concrete per obligation: -DPSTATE (parser state 0..15), -DKIND (option kind the step acts on),
 *   -DNV (values/instances the option already holds), -DCTXF (context flags), -DNARGS (collected
 *   call arguments, states 8/9), -DFORCE10 (inside a skipped unknown section).
 *   -DLEVEL (nesting level 0 / 1 / deep).
 * Symbolic: token kind, token text (NTOK bytes), RESET/MODIFIED bits, stored values,
 *   titles, pending annotation, num_values, ignore, callback verdicts.
 */
#include <stdio.h>
#include <stdlib.h>
#include <string.h>
#include "confuse.h"

struct pstate {
	int *state;
	cfg_opt_t **opt;
	int *ignore;
	int *num_values;
	char **comment;
	char **opttitle;
	cfg_opt_t *funcopt;
	unsigned long *skip_depth; /* open braces of undeclared sections being skipped */
};
static void verif_step(cfg_t *cfg, int level, int force_state, struct pstate *ps);
#define LIBCONFUSE_VERIF_PARSE_STEP()                                                        \
	do {                                                                                 \
		struct pstate ps_ = { &state, &opt, &ignore, &num_values, &comment, &opttitle, &funcopt, &skip_depth }; \
		verif_step(cfg, level, force_state, &ps_);                                   \
	} while (0)

#include "verif.h"
/* free() as seen by confuse.c: counts how often each watched object is released (C07: exactly once) */
#define NWATCH 8
static void *watch_ptr[NWATCH];
static int watch_freed[NWATCH];
static int n_watch;
static void v_free(void *p)
{
	int i;

	for (i = 0; i < NWATCH; i++)
		if (i < n_watch && p != NULL && p == watch_ptr[i])
			watch_freed[i]++;
	free(p);
}
static int watch(void *p)
{
	if (n_watch < NWATCH)
		watch_ptr[n_watch] = p;
	return n_watch++;
}
static int times_freed(void *p)
{
	int i;

	for (i = 0; i < NWATCH; i++)
		if (i < n_watch && watch_ptr[i] == p)
			return watch_freed[i];
	return -1;
}
#if defined(TRACK_CALLOC)
/* call states: the only calloc() of the step is call_function()'s argument vector - watch it */
static void *last_calloc;
static int n_calloc;
static void *v_calloc(size_t a, size_t b)
{
	void *p = calloc(a, b);

	n_calloc++;
	last_calloc = p;
	watch(p);
	return p;
}
#define calloc v_calloc
#endif
#ifdef __CPROVER__
/* realloc() is only used by confuse.c to grow the value vector (an array of pointers).  CBMC's
 * built-in model copies byte-wise, which turns every stored pointer into a byte-extract expression
 * and makes all later dereferences range over every object.  This model copies element-wise. */
static void *v_realloc(void *p, size_t n)
{
	void **q = malloc(n);
	size_t old = p ? __CPROVER_OBJECT_SIZE(p) / sizeof(void *) : 0, cnt = n / sizeof(void *), i;

	for (i = 0; i < old && i < cnt; i++)
		q[i] = ((void **)p)[i];
	free(p);
	return q;
}
#define realloc v_realloc
/* reallocarray() is only used to grow an option array (cfg_addopt): element-wise copy as well */
static void *v_reallocarray(void *p, size_t nmemb, size_t size)
{
	cfg_opt_t *q = malloc(nmemb * size);
	size_t old = p ? __CPROVER_OBJECT_SIZE(p) / sizeof(cfg_opt_t) : 0, i;

	for (i = 0; i < old && i < nmemb; i++)
		q[i] = ((cfg_opt_t *)p)[i];
	free(p);
	return q;
}
#define reallocarray v_reallocarray
#ifndef EXACT_ALLOC
/* fixed-capacity copies (8 bytes): symbolic allocation sizes make the solver run out of memory
 * (DESIGN section 1).  Obligations that claim memory safety of these copies use -DEXACT_ALLOC. */
static char *v_strndup8(const char *s, size_t n)
{
	char *r = malloc(8);
	size_t i;

	for (i = 0; i < n && i < 7 && s[i]; i++)
		r[i] = s[i];
	r[i] = 0;
	return r;
}
static char *v_strdup8(const char *s)
{
	return v_strndup8(s, 7);
}
#define strndup v_strndup8
#define strdup v_strdup8
#endif
#endif
#define free v_free
#include "confuse.c"
#undef free
#undef calloc
#define VM_NO_STRNDUP
#define VM_STRTOD_CONTRACT
#include "libc_models.h"

#ifndef NTOK
#define NTOK 2
#endif
#ifndef PSTATE
#define PSTATE 2
#endif
#ifndef KIND
#define KIND 1
#endif
#ifndef NV
#define NV 1
#endif
#ifndef CTXF
#define CTXF 0
#endif
#ifndef NARGS
#define NARGS 0
#endif
#ifndef LEVEL
#define LEVEL 0
#endif
#ifndef NEWTITLE
#define NEWTITLE 'C'
#endif

/* option kinds (macros, they are used in #if) */
#define K_INT 1
#define K_STR 2
#define K_BOOL 3
#define K_FLOAT 4
#define K_INTLIST 5
#define K_STRLIST 6
#define K_PTR 7
#define K_SEC 8
#define K_SECM 9
#define K_SECT 10
#define K_SECTU 11
#define K_FUNC 12
#define K_DEPR 13
#define K_DEPRDROP 14
#define K_SECKV 15

/* ---------------- environment ---------------- */
static int n_err;
static cfg_t *err_cfg;
static int err_line;
static void errfn(cfg_t *cfg, const char *fmt, va_list ap)
{
	(void)fmt;
	(void)ap;
	n_err++;
	err_cfg = cfg;
	err_line = cfg->line;
}

/* strtod contract (C04 decides conversions; here only "some value or rejected") */
#define VIN_STRTOD
static int n_lex_main, n_lex_nested;
static int base_level = -1, cur_level, hook_calls;
static char vin_tok[NTOK + 1];
static int vin_tokkind;
static int the_token;
static int body_lines; /* newlines inside the (empty) nested body */
static int nested_names_file = -1;
static int entry_line;
static cfg_t root;

int cfg_yylex(cfg_t *cfg)
{
	(void)cfg;
	if (cur_level > base_level) {
		/* body of a nested section / skipped section: served as empty, but it may span lines */
		n_lex_nested++;
		/* the context a diagnostic from inside the body would be reported with: does it name the file being read? */
		nested_names_file = (cfg->filename != NULL && root.filename != NULL && strcmp(cfg->filename, root.filename) == 0);
		cfg->line += body_lines;
		cfg_yylval = "}";
		return '}';
	}
	n_lex_main++;
	cfg_yylval = vin_tok;
	return the_token;
}
static int n_yydestroy;
void cfg_yylex_destroy(void) { n_yydestroy++; }
static int n_include;
int cfg_lexer_include(cfg_t *cfg, const char *fname)
{
	(void)cfg;
	(void)fname;
	n_include++;
	return 0;
}
void cfg_scan_fp_begin(FILE *fp) { (void)fp; }
void cfg_scan_fp_end(void) { }

/* callbacks with recorded invocations and symbolic verdicts */
static int n_parsecb, n_validcb, n_func, n_freecb;
static int cb_parse_rc, cb_valid_rc, cb_func_rc;
static char cb_parse_arg[NTOK + 1];
static int cb_valid_seen_nvalues;
static int cb_valid_line;
static int cb_valid_lex_calls;
static int func_argc;
static char func_argv[3][NTOK + 1];
static int ptr_cell_a, ptr_cell_b, ptr_cell_new;
static void *freed_ptr[4];

static int parse_cb(cfg_t *cfg, cfg_opt_t *opt, const char *value, void *result)
{
	int i;

	(void)cfg;
	(void)opt;
	n_parsecb++;
	for (i = 0; i < NTOK && value && value[i]; i++)
		cb_parse_arg[i] = value[i];
	cb_parse_arg[i] = 0;
	if (cb_parse_rc != 0)
		return cb_parse_rc;
	*(void **)result = &ptr_cell_new;
	return 0;
}
static void free_cb(void *p)
{
	if (n_freecb < 4)
		freed_ptr[n_freecb] = p;
	n_freecb++;
}
static int valid_cb(cfg_t *cfg, cfg_opt_t *opt)
{
	(void)cfg;
	n_validcb++;
	cb_valid_seen_nvalues = (int)opt->nvalues;
	cb_valid_line = cfg->line;
	cb_valid_lex_calls = n_lex_main + n_lex_nested;
	return cb_valid_rc;
}
static int func_cb(cfg_t *cfg, cfg_opt_t *opt, int argc, const char **argv)
{
	int i, j;

	(void)cfg;
	(void)opt;
	n_func++;
	func_argc = argc;
	for (i = 0; i < argc && i < 3; i++) {
		for (j = 0; j < NTOK && argv[i][j]; j++)
			func_argv[i][j] = argv[i][j];
		func_argv[i][j] = 0;
	}
	return cb_func_rc;
}

static int h_tolower(int c) { return (c >= 'A' && c <= 'Z') ? c + 32 : c; }

/* ---------------- schema ---------------- */
static cfg_opt_t sub_opts[] = {
	CFG_INT("a", 7, CFGF_NONE),
	CFG_STR("z", "q", CFGF_NONE),
	CFG_END()
};
static cfg_opt_t kv_opts[] = { CFG_END() };
static cfg_opt_t root_opts[] = {
	CFG_INT("i", 3, CFGF_NONE),
	CFG_STR("s", "d", CFGF_NONE),
	CFG_BOOL("b", cfg_false, CFGF_NONE),
	CFG_FLOAT("f", 0, CFGF_NONE),
	CFG_INT_LIST("l", 0, CFGF_NONE),
	CFG_STR_LIST("m", 0, CFGF_NONE),
	CFG_PTR_CB("p", 0, CFGF_NONE, parse_cb, free_cb),
	CFG_SEC("c", sub_opts, CFGF_NONE),
	CFG_SEC("d", sub_opts, CFGF_MULTI),
	CFG_SEC("t", sub_opts, CFGF_MULTI | CFGF_TITLE),
	CFG_SEC("u", sub_opts, CFGF_MULTI | CFGF_TITLE | CFGF_NO_TITLE_DUPES),
	CFG_FUNC("g", func_cb),
	CFG_INT("x", 0, CFGF_DEPRECATED),
	CFG_INT("y", 0, CFGF_DEPRECATED | CFGF_DROP),
	CFG_SEC("k", kv_opts, CFGF_KEYSTRVAL),
	CFG_END()
};
#define NROOT 15
static const int kind_index[] = { -1, 0, 1, 2, 3, 4, 5, 6, 7, 8, 9, 10, 11, 12, 13, 14 };

static cfg_t root;
static cfg_opt_t *O; /* the option the step acts on */
static cfg_searchpath_t *the_path, *older_path;

/* observable snapshot of O before the step */
static unsigned pre_nvalues;
static int pre_flags;
static long pre_num[3];
static char pre_str[3][NTOK + 1];
static cfg_t *pre_sec[3];
static long pre_sec0_a;
static cfg_flag_t pre_sec0_aflags;
static char pre_title[3][2];
static char *pre_comment;
static char pre_comment_txt[2];
static int pre_state, pre_num_values, pre_ignore, pre_level, pre_line;
static unsigned long pre_skip;
static char *pre_pending; /* pending annotation (parser local) */
static char pre_pending_txt[NTOK + 1];
static int pre_has_title;
static char pre_opttitle[NTOK + 1];
static int pre_nargs;
static char *held_title;
static cfg_value_t *held_arg_cell[3];
static char *held_arg_str[3];
static cfg_opt_t *pre_opt;

static char *heap_str(const char *s)
{
	char *r = malloc(strlen(s) + 1);

	V_ASSUME(r != NULL);
	strcpy(r, s);
	return r;
}

/* one default-holding scalar sub-option, every field assigned explicitly so that symbolic
 * execution keeps the whole instance constant (calloc/memcpy would turn it into byte soup) */
static void mk_subopt(cfg_opt_t *o, const char *name, cfg_type_t type)
{
	o->name = heap_str(name);
	o->comment = NULL;
	o->type = type;
	o->nvalues = 1;
	o->values = malloc(sizeof(cfg_value_t *));
	V_ASSUME(o->values != NULL);
	o->values[0] = malloc(sizeof(cfg_value_t));
	V_ASSUME(o->values[0] != NULL);
	o->flags = CFGF_DEFINIT | CFGF_RESET;
	o->subopts = NULL;
	o->def.number = 0;
	o->def.fpnumber = 0;
	o->def.boolean = cfg_false;
	o->def.string = NULL;
	o->def.parsed = NULL;
	o->func = NULL;
	o->simple_value.ptr = NULL;
	o->parsecb = NULL;
	o->validcb = NULL;
	o->validcb2 = NULL;
	o->pf = NULL;
	o->freecb = NULL;
}

/* an existing instance of section option `opt`, in the state cfg_setopt()+cfg_init_defaults() leave it */
static cfg_t *mk_section(cfg_opt_t *opt, const char *title)
{
	cfg_t *sec = malloc(sizeof(cfg_t));

	V_ASSUME(sec != NULL);
	sec->comment = NULL;
	sec->path = NULL;
	sec->pff = NULL;
	sec->name = heap_str(opt->name);
	sec->flags = CTXF | (opt->flags & CFGF_KEYSTRVAL);
	{
		/* an existing instance was created while another file (or, by cfg_init(), no file at all) was read */
		V_IN_BOOL(vin_sec_named);
		sec->filename = vin_sec_named ? heap_str("e") : NULL;
	}
	sec->line = 1;
	sec->errfunc = errfn;
	sec->title = title ? heap_str(title) : NULL;
	if (opt->subopts == kv_opts) {
		sec->opts = malloc(sizeof(cfg_opt_t));
		V_ASSUME(sec->opts != NULL);
		memset(&sec->opts[0], 0, sizeof(cfg_opt_t)); /* the end marker is all zero (calloc in cfg_dupopt_array) */
	} else {
		sec->opts = malloc(3 * sizeof(cfg_opt_t));
		V_ASSUME(sec->opts != NULL);
		mk_subopt(&sec->opts[0], "a", CFGT_INT);
		sec->opts[0].values[0]->number = 7;
		sec->opts[0].def.number = 7;
		{
			/* the instance may already hold an explicitly assigned value for a (not its default) */
			V_IN_BOOL(vin_sec_a_set);
			V_IN_LONG(vin_sec_a);
			if (vin_sec_a_set) {
				sec->opts[0].values[0]->number = vin_sec_a;
				sec->opts[0].flags = CFGF_DEFINIT | CFGF_MODIFIED;
			}
		}
		mk_subopt(&sec->opts[1], "z", CFGT_STR);
		sec->opts[1].values[0]->string = heap_str("q");
		sec->opts[1].def.string = heap_str("q");
		memset(&sec->opts[2], 0, sizeof(cfg_opt_t));
		sec->opts[2].name = NULL;
		sec->opts[2].comment = NULL;
		sec->opts[2].def.parsed = NULL;
		sec->opts[2].def.string = NULL;
		sec->opts[2].subopts = NULL;
	}
	return sec;
}

/* give O its NV pre-existing values */
static void build_values(void)
{
	int i;

	O->nvalues = 0;
	O->values = NULL;
	if (NV == 0)
		return;
	O->values = malloc(NV * sizeof(cfg_value_t *));
	V_ASSUME(O->values != NULL);
	for (i = 0; i < NV; i++) {
		O->values[i] = malloc(sizeof(cfg_value_t));
		V_ASSUME(O->values[i] != NULL);
		O->values[i]->ptr = NULL;
		switch (O->type) {
		case CFGT_INT: {
			V_IN_LONG(vin_val);
			O->values[i]->number = vin_val;
			pre_num[i] = vin_val;
			break;
		}
		case CFGT_BOOL: {
			V_IN_BOOL(vin_bval);
			O->values[i]->boolean = vin_bval ? cfg_true : cfg_false;
			pre_num[i] = vin_bval;
			break;
		}
		case CFGT_FLOAT:
			O->values[i]->fpnumber = 1.5;
			break;
		case CFGT_STR: {
			V_IN_UCHAR(vin_sval);
			char tmp[2] = { (char)vin_sval, 0 };
			O->values[i]->string = heap_str(tmp);
			pre_str[i][0] = tmp[0];
			pre_str[i][1] = 0;
			break;
		}
		case CFGT_PTR:
			O->values[i]->ptr = i == 0 ? (void *)&ptr_cell_a : (void *)&ptr_cell_b;
			break;
		case CFGT_SEC: {
			/* titles of existing instances are concrete ("A", "B"): which instance a new title
			 * matches is control, decided per obligation through -DNEWTITLE */
#if KIND == K_SECT || KIND == K_SECTU
			pre_title[i][0] = (char)('A' + i);
			pre_title[i][1] = 0;
			O->values[i]->section = mk_section(O, pre_title[i]);
#else
			O->values[i]->section = mk_section(O, NULL);
#endif
			pre_sec[i] = O->values[i]->section;
			if (i == 0 && O->subopts != kv_opts) {
				pre_sec0_a = pre_sec[0]->opts[0].values[0]->number;
				pre_sec0_aflags = pre_sec[0]->opts[0].flags;
			}
			break;
		}
		default:
			break;
		}
	}
	O->nvalues = NV;
}

/* ---------------- the hook ---------------- */
static struct pstate *PS;
static void post_step(cfg_t *cfg, struct pstate *ps);

static void verif_step(cfg_t *cfg, int level, int force_state, struct pstate *ps)
{
	(void)force_state;
	cur_level = level;
	if (base_level < 0)
		base_level = level;
	if (level > base_level)
		return; /* nested invocation: runs naturally on the empty body */
	hook_calls++;
	if (hook_calls == 1) {
		int i;

#ifdef VIA_PARSE_FP
		cfg->line = entry_line; /* cfg_parse_fp() starts at line 1; the step happens later in the text */
#endif

		/* havoc the automaton's locals into the obligation's pre-state */
		*ps->state = PSTATE;
		{
			V_IN_INT(vin_num_values);
			V_ASSUME(vin_num_values >= 0 && vin_num_values <= 1000);
#if PSTATE == 4
			V_ASSUME(vin_num_values >= 1);
#endif
			*ps->num_values = vin_num_values;
		}
#if PSTATE >= 10
		{
			/* inside the body of a skipped undeclared section (FORCE10) the count of its open braces is >= 1 */
			V_IN_UINT(vin_skip_depth);
#ifdef FORCE10
			V_ASSUME(vin_skip_depth >= 1);
			*ps->skip_depth = vin_skip_depth;
#else
			(void)vin_skip_depth;
			*ps->skip_depth = 0;
#endif
		}
		{
			V_IN_INT(vin_ignore);
#if PSTATE == 13
			V_ASSUME(vin_ignore == '=' || vin_ignore == ')' || vin_ignore == '}');
#else
			V_ASSUME(vin_ignore == 0 || vin_ignore == '=' || vin_ignore == ')' || vin_ignore == '}');
#endif
			*ps->ignore = vin_ignore;
		}
		*ps->opt = NULL;
#elif PSTATE == 0
		{
			/* opt = option handled by the previous item: none, or O (concrete per obligation) */
#if defined(PREV_IS_O) && KIND != K_SECKV
			*ps->opt = O;
#else
			*ps->opt = NULL;
#endif
		}
#else
		*ps->opt = O;
#endif
		/* pending annotation */
		*ps->comment = NULL;
#if (CTXF & CFGF_COMMENTS) && (PSTATE <= 3 || PSTATE == 10)
		{
			V_IN_BOOL(vin_has_pending);
			if (vin_has_pending) {
				V_FILL_STR(pre_pending_txt, 1);
				*ps->comment = heap_str(pre_pending_txt);
				watch(*ps->comment);
			}
		}
#endif
		*ps->opttitle = NULL;
#if PSTATE == 5
#if KIND == K_SECT || KIND == K_SECTU
		pre_opttitle[0] = NEWTITLE;
		pre_opttitle[1] = 0;
		*ps->opttitle = heap_str(pre_opttitle);
		held_title = *ps->opttitle;
		watch(held_title);
		pre_has_title = 1;
#endif
#endif
#if PSTATE == 8 || PSTATE == 9
		for (i = 0; i < NARGS; i++) {
			cfg_value_t *v = cfg_addval(ps->funcopt);
			char tmp[2] = { (char)('A' + i), 0 };

			V_ASSUME(v != NULL);
			v->string = heap_str(tmp);
			held_arg_cell[i] = v;
			held_arg_str[i] = v->string;
			watch(v);
			watch(v->string);
		}
#endif
#ifdef TRACK_CALLOC
		n_calloc = 0; /* count the step's own allocations only */
#endif
		pre_state = *ps->state;
		pre_num_values = *ps->num_values;
		pre_ignore = *ps->ignore;
		pre_skip = *ps->skip_depth;
		pre_pending = *ps->comment;
		pre_opt = *ps->opt;
		pre_nargs = (int)ps->funcopt->nvalues;
		pre_level = level;
		pre_line = cfg->line;
		(void)i;
		return;
	}
	/* second visit at the same level: exactly one token has been processed */
	post_step(cfg, ps);
	V_WITNESS("step continued");
	V_CUT();
}

#include "parse_post.h"

int main(void)
{
	int rc, i;
	cfg_t *ctx;

	memset(&root, 0, sizeof(root));
	root.name = "root";
	root.filename = "f";
	root.errfunc = errfn;
	root.opts = root_opts;
	root.flags = CTXF;
	{
		V_IN_INT(vin_line);
		V_ASSUME(vin_line >= 1 && vin_line < 100000);
		root.line = vin_line;
		entry_line = vin_line;
	}
	for (i = 0; i < NROOT; i++)
		root_opts[i].nvalues = 0;
	O = &root_opts[kind_index[KIND]];
#ifdef KV_SUBOPTS
	root_opts[14].subopts = sub_opts; /* a free-form section that also declares sub-options with defaults */
#endif
#ifdef NAMEROOT
	O->name = "root"; /* a section option that happens to be called like the top-level context */
#endif
#ifdef WITH_VALIDCB
	O->validcb = valid_cb;
#endif
#ifdef WITH_PARSECB
	O->parsecb = parse_cb;
#endif
	{
		V_IN_INT(vin_cb_parse_rc);
		V_IN_INT(vin_cb_valid_rc);
		V_IN_INT(vin_cb_func_rc);
		{
			V_IN_INT(vin_body_lines);
			V_ASSUME(vin_body_lines >= 0 && vin_body_lines <= 1000);
			body_lines = vin_body_lines;
		}
		cb_parse_rc = vin_cb_parse_rc;
		cb_valid_rc = vin_cb_valid_rc;
		cb_func_rc = vin_cb_func_rc;
	}
	/* option state: RESET/MODIFIED/DEFINIT symbolic (invariant: RESET => DEFINIT) */
	{
		V_IN_BOOL(vin_reset);
		V_IN_BOOL(vin_modified);
		if (O->type != CFGT_SEC && O->type != CFGT_FUNC) {
			O->flags |= CFGF_DEFINIT;
			if (vin_reset)
				O->flags |= CFGF_RESET;
		} else if (O->type == CFGT_SEC && !(O->flags & CFGF_MULTI)) {
			O->flags |= CFGF_DEFINIT;
		}
		if (vin_modified && O->type != CFGT_SEC && O->type != CFGT_FUNC)
			O->flags |= CFGF_MODIFIED;
#ifdef SEC_NODEFAULT
		/* CFG_SEC(..., CFGF_NODEFAULT): no instance is made by cfg_init() and the option is never marked initialised */
		O->flags |= CFGF_NODEFAULT;
		O->flags &= ~CFGF_DEFINIT;
#endif
	}
	build_values();
#ifdef WITH_PATH
	/* a search path on the root, borrowed by every existing section instance */
	the_path = malloc(sizeof(cfg_searchpath_t));
	V_ASSUME(the_path != NULL);
	the_path->dir = heap_str("d");
	the_path->next = NULL;
	root.path = the_path;
#if WITH_PATH == 2
	/* instances that an earlier parse already entered borrow the path */
	if (O->type == CFGT_SEC)
		for (i = 0; i < NV; i++)
			O->values[i]->section->path = the_path;
#endif
#if WITH_PATH == 3
	/* a directory was added AFTER the instances were entered: they borrow the older head of the list */
	if (O->type == CFGT_SEC)
		for (i = 0; i < NV; i++)
			O->values[i]->section->path = the_path;
	{
		cfg_searchpath_t *head = malloc(sizeof(cfg_searchpath_t));

		V_ASSUME(head != NULL);
		head->dir = heap_str("e");
		head->next = the_path;
		root.path = head;
		older_path = the_path;
		the_path = head;
	}
#endif
#endif
	/* existing annotation on the option */
	{
		V_IN_BOOL(vin_has_comment);
		if (vin_has_comment && (CTXF & CFGF_COMMENTS)) {
			V_FILL_STR(pre_comment_txt, 1);
			O->comment = heap_str(pre_comment_txt);
			O->flags |= CFGF_COMMENTS;
		}
		pre_comment = O->comment;
	}
	pre_nvalues = O->nvalues;
	pre_flags = O->flags;

	/* the token */
	{
		V_SET_INT(vin_tokkind);
		V_FILL_STR(vin_tok, NTOK);
#ifdef TOK
		V_ASSUME(vin_tokkind == TOK);
#endif
		V_ASSUME(vin_tokkind == CFGT_STR || vin_tokkind == '=' || vin_tokkind == '+' || vin_tokkind == '{' || vin_tokkind == '}' ||
			 vin_tokkind == '(' || vin_tokkind == ')' || vin_tokkind == ',' || vin_tokkind == CFGT_COMMENT || vin_tokkind == -1 ||
			 vin_tokkind == 0);
		the_token = vin_tokkind;
		/* names that contain the path metacharacters are resolved as paths (C11): outside this claim */
		for (i = 0; i < NTOK; i++)
#ifdef PATHNAME
			if (i == 2) /* bytes 0 and 1 are the concrete "c|" (also in a native replay, which reads them back) */
#endif
			V_ASSUME(vin_tok[i] != '|' && vin_tok[i] != '=');
#ifdef PATHNAME
		/* ... except this shaped one: "c|X", a path key into the single section "c" (X symbolic): the item is
		 * looked up through the path resolver; an unknown leaf is reported against the context being scanned */
		V_ASSUME(vin_tok[2] != 0);
		vin_tok[0] = 'c';
		vin_tok[1] = '|';
#endif
	}

	ctx = &root;
#if KIND == K_SECKV && PSTATE <= 2
	/* free-form key=value section: the step runs inside an instance of "k" */
	ctx = O->values[0]->section;
	ctx->errfunc = errfn;
#endif
	/* the nesting level is a concrete obligation parameter (the automaton only tests level == 0 and
	 * passes level + 1 down); a symbolic level would make the hook's call counting symbolic */
#if defined(VIA_PARSE_FP)
	/* the step is entered the way applications enter it, through the real cfg_parse_fp() (LEVEL 0 only) */
	rc = cfg_parse_fp(ctx, (FILE *)&root) == CFG_PARSE_ERROR ? STATE_ERROR : STATE_EOF;
#elif defined(FORCE_OPT)
	/* the scan of a declared default value string: cfg_init_defaults() passes the option it belongs to */
	rc = cfg_parse_internal(ctx, LEVEL, -1, O);
#else
	rc = cfg_parse_internal(ctx, LEVEL, -1, NULL);
#endif
	post_return(ctx, rc);
	V_WITNESS("step returned");
	V_WITNESS("end of harness");
	return 0;
}
