/* reg_step.c - C14: callback registration by schema path (cfg_set_validate_func, cfg_set_validate_func2,
 * cfg_getopt_array) writes to the declarations every future instance is copied from, for every name byte. */
#include <stdio.h>
#include <stdlib.h>
#include <string.h>
#include "confuse.h"
#include "verif.h"
#ifdef __CPROVER__
static char *v_strndup8(const char *s, size_t n)
{
	char *r = malloc(8);
	size_t i;

	for (i = 0; i < n && i < 7 && s[i]; i++)
		r[i] = s[i];
	r[i] = 0;
	return r;
}
#define strndup v_strndup8
#endif
#include "confuse.c"
#define VM_NO_STRNDUP
#include "libc_models.h"
#include "build.h"

#ifdef NOCASE_CTX
#define REG_CTXF CFGF_NOCASE
#define IS(c, l) (((c) | 0x20) == (l)) /* names are matched without regard to letter case, section components included */
#else
#define REG_CTXF CFGF_NONE
#define IS(c, l) ((c) == (l))
#endif
static int vcb(cfg_t *cfg, cfg_opt_t *opt) { (void)cfg; (void)opt; return 0; }
static int vcb2(cfg_t *cfg, cfg_opt_t *opt, void *v) { (void)cfg; (void)opt; (void)v; return 0; }

int main(void)
{
	/* declarations as the context owns them: m (multi) and s (single), each with sub-option a */
	cfg_opt_t *ropts = alloc_opts(3), *msub = alloc_opts(1), *ssub = alloc_opts(1);
	cfg_t root, *mi, *si;
	char vin_path[4];
	cfg_validate_callback_t old;

	init_opt(&ropts[0], "m", CFGT_SEC, CFGF_MULTI);
	init_opt(&msub[0], "a", CFGT_INT, CFGF_NONE);
	ropts[0].subopts = msub;
	init_opt(&ropts[1], "s", CFGT_SEC, CFGF_DEFINIT);
	init_opt(&ssub[0], "a", CFGT_INT, CFGF_NONE);
	ropts[1].subopts = ssub;
	init_opt(&ropts[2], "i", CFGT_INT, CFGF_NONE);
	init_cfg(&root, "root", ropts, REG_CTXF);
	/* instances that already exist when the callback is registered */
	alloc_values(&ropts[0], 1);
	mi = ropts[0].values[0]->section = mk_section2("m", NULL, CFGF_NONE);
	alloc_values(&ropts[1], 1);
	si = ropts[1].values[0]->section = mk_section2("s", NULL, CFGF_NONE);

	/* "X|a" with a symbolic section name byte, or a plain symbolic name */
	V_FILL_STR(vin_path, 3);
#ifdef PLAIN
	V_ASSUME(vin_path[0] != 0 && vin_path[0] != '|' && vin_path[1] == 0);
#else
	V_ASSUME(vin_path[0] != 0 && vin_path[0] != '|' && vin_path[1] == '|' && vin_path[2] == 'a' && vin_path[3] == 0);
#endif
	old = cfg_set_validate_func(&root, vin_path, vcb);
	(void)old;
#ifdef PLAIN
	if (IS(vin_path[0], 'i')) {
		V_ASSERT(ropts[2].validcb == vcb, "[C14] registering by a plain name sets the callback of that option");
		V_WITNESS("hit");
	} else if (!IS(vin_path[0], 'm') && !IS(vin_path[0], 's')) {
		V_ASSERT(ropts[0].validcb == NULL && ropts[1].validcb == NULL && ropts[2].validcb == NULL, "[C14] registering by an unknown name sets nothing");
		V_WITNESS("miss");
	}
#else
	if (IS(vin_path[0], 'm')) {
		V_ASSERT(msub[0].validcb == vcb, "[C14] registering by path on a multi section sets the callback in the declarations every later instance is copied from");
		V_ASSERT(mi->opts[0].validcb == NULL, "[C14] registering on a multi section does not single out an existing instance");
		V_WITNESS("hit");
	} else if (IS(vin_path[0], 's')) {
		V_ASSERT(si->opts[0].validcb == vcb, "[C14] registering by path on a single section sets the callback of its one instance");
		V_ASSERT(ssub[0].validcb == vcb, "[C14] registering by path on a single section also reaches the declarations a re-created instance is copied from");
		V_WITNESS("hit");
	} else {
		V_ASSERT(msub[0].validcb == NULL && ssub[0].validcb == NULL && mi->opts[0].validcb == NULL && si->opts[0].validcb == NULL, "[C14] registering by an unknown path sets nothing");
		V_WITNESS("miss");
	}
	{
		cfg_validate_callback2_t o2 = cfg_set_validate_func2(&root, "m|a", vcb2);

		(void)o2;
		V_ASSERT(msub[0].validcb2 == vcb2 && mi->opts[0].validcb2 == NULL, "[C14] a pre-set validation callback is registered in the declarations as well");
	}
#endif
	V_WITNESS("end of harness");
	return 0;
}
