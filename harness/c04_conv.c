/* C04 - text -> number / boolean conversion is exact or rejected, independent of errno.
 *
 * Code under test: the real cfg_setopt() (INT/FLOAT/BOOL branches), cfg_parse_boolean(),
 * cfg_opt_setmulti() -> cfg_setopt(), from /repo/src/confuse.c.
 * Symbolic: token bytes (NTOK), ambient errno, the previously stored value.
 * Modes (-DMODE=): 1 int scalar (existing value)   2 int list (append)
 *                  3 int via cfg_opt_setmulti       4 bool scalar
 *                  5 float scalar (strtod contract stub)
 *                  6 int scalar, shaped boundary token: PREFIX + NDIG symbolic digits
 */
#include "verif.h"
#if MODE == 5
/* the float branch is checked against a strtod *contract* (any end pointer inside the token,
 * any value, optional range error); the same stub is used by the native replay so that the
 * solver's answers for it can be reproduced */
#include <stdlib.h>
#define strtod v_strtod
double v_strtod(const char *nptr, char **endptr);
#endif
#include "confuse.c"
#include "libc_models.h"

#ifndef NTOK
#define NTOK 4
#endif

static int nerr;
static cfg_t *err_cfg;
static void errfn(cfg_t *cfg, const char *fmt, va_list ap)
{
	(void)fmt;
	(void)ap;
	nerr++;
	err_cfg = cfg;
}

#if MODE == 5
static int sd_ranged, sd_k;
static double sd_ret;
static size_t sd_len;
double v_strtod(const char *nptr, char **endptr)
{
	size_t len = strlen(nptr);
	V_IN_UINT(vin_sd_k);
	V_IN_BOOL(vin_sd_range);
	V_IN_DOUBLE(vin_sd_val);

	V_ASSUME(vin_sd_k <= len);
	sd_len = len;
	sd_k = vin_sd_k;
	if (endptr)
		*endptr = (char *)nptr + vin_sd_k;
	sd_ranged = vin_sd_range;
	if (vin_sd_range)
		errno = ERANGE;
	if (vin_sd_k == 0)
		vin_sd_val = 0.0;
	sd_ret = vin_sd_val;
	return vin_sd_val;
}
#endif

/* ---- reference classification of an integer token (from the property statement) ---- */
enum { R_ACCEPT, R_REJECT, R_GREY };

static int ref_digit(unsigned char c)
{
	if (c >= '0' && c <= '9')
		return c - '0';
	if (c >= 'a' && c <= 'f')
		return c - 'a' + 10;
	if (c >= 'A' && c <= 'F')
		return c - 'A' + 10;
	return 99;
}
static int ref_isws(unsigned char c)
{
	return c == ' ' || c == '\t' || c == '\n' || c == '\v' || c == '\f' || c == '\r';
}

/* GREY: forms the statement does not talk about and where a lenient strtol() may accept:
 * white space anywhere, a sign anywhere but position 0, a sign followed by '0' (sign
 * before a prefix / signed octal), upper-case prefix letters, a second "0x" after a
 * prefix.  There only errno-independence is demanded. */
static int ref_int(const char *t, int n, long *out)
{
	int i, radix = 10, start = 0, neg = 0, cnt = 0, over = 0;
	unsigned long acc = 0, lim;

	for (i = 0; i < n && t[i]; i++) {
		if (ref_isws((unsigned char)t[i]))
			return R_GREY;
		if ((t[i] == '+' || t[i] == '-') && i > 0)
			return R_GREY;
	}
	if ((t[0] == '+' || t[0] == '-') && t[1] == '0')
		return R_GREY;
	if (t[0] == '0' && (t[1] == 'X' || t[1] == 'B'))
		return R_GREY;
	if (t[0] == '0' && (t[1] == 'x' || t[1] == 'b') && t[2] == '0' && (t[3] == 'x' || t[3] == 'X'))
		return R_GREY;

	if (t[0] == 0)
		return R_REJECT;
	if (t[0] == '0' && t[1] == 'x') {
		radix = 16;
		start = 2;
	} else if (t[0] == '0' && t[1] == 'b') {
		radix = 2;
		start = 2;
	} else if (t[0] == '0') {
		radix = 8;
		start = 1;
		cnt = 1; /* the leading 0 is a digit */
	} else if (t[0] == '-') {
		neg = 1;
		start = 1;
	} else if (t[0] == '+') {
		start = 1;
	}
	lim = neg ? (unsigned long)LONG_MAX + 1UL : (unsigned long)LONG_MAX;
	for (i = start; i < n && t[i]; i++) {
		int d = ref_digit((unsigned char)t[i]);

		if (d >= radix)
			return R_REJECT;
		if (acc > (lim - (unsigned long)d) / (unsigned long)radix)
			over = 1;
		else
			acc = acc * (unsigned long)radix + (unsigned long)d;
		cnt++;
	}
	if (cnt == 0)
		return R_REJECT;
	if (over)
		return R_REJECT;
	*out = neg ? (long)(0UL - acc) : (long)acc;
	return R_ACCEPT;
}

static int ref_bool(const char *t)
{
	char l[8];
	int i;

	for (i = 0; i < 7 && t[i]; i++)
		l[i] = (t[i] >= 'A' && t[i] <= 'Z') ? t[i] + 32 : t[i];
	l[i] = 0;
	if (t[i])
		return -1;
	if (!strcmp(l, "true") || !strcmp(l, "yes") || !strcmp(l, "on"))
		return 1;
	if (!strcmp(l, "false") || !strcmp(l, "no") || !strcmp(l, "off"))
		return 0;
	return -1;
}

int main(void)
{
	cfg_t cfg;
	cfg_opt_t opt;
	cfg_value_t cellA, cellB;
	cfg_value_t *cells[2];
	cfg_value_t *r;
	long want = 0;
	int cls;

	memset(&cfg, 0, sizeof(cfg));
	memset(&opt, 0, sizeof(opt));
	cfg.name = "root";
	cfg.filename = "f";
	cfg.line = 1;
	cfg.errfunc = errfn;
	opt.name = "o";
	cells[0] = &cellA;
	cells[1] = &cellB;

#if MODE == 6
	/* shaped boundary token: concrete PREFIX, NDIG symbolic bytes constrained to digits of
	 * the radix the prefix selects (so the interesting region is range, not syntax) */
	char vin_tok[sizeof(PREFIX) + NDIG];
	{
		const char *pre = PREFIX;
		int pl = sizeof(PREFIX) - 1, k;
		int radix = (pl >= 2 && pre[1] == 'x') ? 16 : (pl >= 2 && pre[1] == 'b') ? 2 : (pl >= 1 && pre[0] == '0') ? 8 : 10;

		for (k = 0; k < pl; k++)
			vin_tok[k] = pre[k];
#ifdef __CPROVER__
		for (k = 0; k < NDIG; k++) {
			vin_tok[pl + k] = nondet_char();
			V_ASSUME(ref_digit((unsigned char)vin_tok[pl + k]) < radix);
		}
		vin_tok[pl + NDIG] = 0;
#else
		v_fill("vin_tok", vin_tok, pl + NDIG);
#endif
	}
#define TOKN ((int)sizeof(PREFIX) - 1 + NDIG)
#else
	V_IN_STR(vin_tok, NTOK);
#define TOKN NTOK
#endif
	V_IN_INT(vin_errno);
	V_IN_LONG(vin_old);

	errno = vin_errno;

#if MODE == 1 || MODE == 6
	opt.type = CFGT_INT;
	opt.nvalues = 1;
	opt.values = cells;
	cellA.number = vin_old;
	cls = ref_int(vin_tok, TOKN, &want);
	r = cfg_setopt(&cfg, &opt, vin_tok);
	if (cls == R_ACCEPT) {
		V_ASSERT(r == &cellA, "[C04] well-formed in-range integer numeral is accepted");
		V_ASSERT(r == NULL || cellA.number == want, "[C04] accepted integer equals the numeral's value");
		V_ASSERT(r == NULL || nerr == 0, "[C04] accepted integer produces no diagnostic");
		V_WITNESS("int accept path");
	} else if (cls == R_REJECT) {
		V_ASSERT(r == NULL, "[C04] malformed or out-of-range integer token is rejected");
		V_ASSERT(r != NULL || nerr >= 1, "[C04] rejected integer token is reported");
		V_ASSERT(r != NULL || cellA.number == vin_old, "[C04] rejected integer token leaves the old value");
		V_WITNESS("int reject path");
	} else {
		V_ASSERT(r != NULL || cellA.number == vin_old, "[C04] rejected (grey) token leaves the old value");
		V_WITNESS("int grey path");
	}
	{
		/* errno independence: same token, different ambient errno, fresh cell */
		cfg_opt_t opt2;
		cfg_value_t cell2;
		cfg_value_t *cells2[1];
		cfg_value_t *r2;
		V_IN_INT(vin_errno2);

		memset(&opt2, 0, sizeof(opt2));
		opt2.name = "o";
		opt2.type = CFGT_INT;
		opt2.nvalues = 1;
		cells2[0] = &cell2;
		opt2.values = cells2;
		cell2.number = vin_old;
		errno = vin_errno2;
		r2 = cfg_setopt(&cfg, &opt2, vin_tok);
		V_ASSERT((r == NULL) == (r2 == NULL), "[C04] integer acceptance does not depend on ambient errno");
		V_ASSERT(r == NULL || r2 == NULL || cellA.number == cell2.number, "[C04] integer value does not depend on ambient errno");
	}
#elif MODE == 2
	/* list option holding one value: a successful set appends a second cell */
	opt.type = CFGT_INT;
	opt.flags = CFGF_LIST;
	opt.nvalues = 1;
	opt.values = malloc(sizeof(cfg_value_t *));
	V_ASSUME(opt.values != NULL);
	opt.values[0] = malloc(sizeof(cfg_value_t));
	V_ASSUME(opt.values[0] != NULL);
	opt.values[0]->number = vin_old;
	cls = ref_int(vin_tok, TOKN, &want);
	r = cfg_setopt(&cfg, &opt, vin_tok);
	if (cls == R_ACCEPT) {
		V_ASSERT(r != NULL && opt.nvalues == 2 && opt.values[1] == r, "[C04] list append of a well-formed integer succeeds");
		V_ASSERT(r == NULL || r->number == want, "[C04] appended integer equals the numeral's value");
		V_ASSERT(opt.values[0]->number == vin_old, "[C04] list append keeps earlier elements");
		V_WITNESS("list accept path");
	} else if (cls == R_REJECT) {
		V_ASSERT(r == NULL, "[C04] malformed integer token is rejected for a list");
		V_ASSERT(nerr >= 1, "[C04] rejected list element is reported");
		V_WITNESS("list reject path");
	}
#elif MODE == 3
	{
		char *vals[1];

		opt.type = CFGT_INT;
		opt.flags = CFGF_LIST;
		opt.nvalues = 0;
		opt.values = NULL;
		vals[0] = vin_tok;
		cls = ref_int(vin_tok, TOKN, &want);
		int rc = cfg_opt_setmulti(&cfg, &opt, 1, vals);
		if (cls == R_ACCEPT) {
			V_ASSERT(rc == CFG_SUCCESS && opt.nvalues == 1, "[C04] setmulti accepts a well-formed integer");
			V_ASSERT(rc != CFG_SUCCESS || opt.values[0]->number == want, "[C04] setmulti stores the numeral's value");
			V_WITNESS("setmulti accept path");
		} else if (cls == R_REJECT) {
			V_ASSERT(rc == CFG_FAIL && opt.nvalues == 0, "[C04] setmulti rejects a malformed integer");
			V_WITNESS("setmulti reject path");
		}
	}
#elif MODE == 4
	{
		int wb;

		opt.type = CFGT_BOOL;
		opt.nvalues = 1;
		opt.values = cells;
		V_IN_BOOL(vin_oldb);
		cellA.boolean = vin_oldb ? cfg_true : cfg_false;
		wb = ref_bool(vin_tok);
		r = cfg_setopt(&cfg, &opt, vin_tok);
		if (wb >= 0) {
			V_ASSERT(r == &cellA, "[C04] boolean word is accepted in any letter case");
			V_ASSERT(r == NULL || (int)cellA.boolean == wb, "[C04] boolean word yields its truth value");
			V_ASSERT(r == NULL || nerr == 0, "[C04] accepted boolean produces no diagnostic");
			V_WITNESS("bool accept path");
		} else {
			V_ASSERT(r == NULL, "[C04] non-boolean word is rejected");
			V_ASSERT(nerr >= 1, "[C04] rejected boolean is reported");
			V_ASSERT((int)cellA.boolean == (vin_oldb ? 1 : 0), "[C04] rejected boolean leaves the old value");
			V_WITNESS("bool reject path");
		}
	}
#elif MODE == 5
	{
		V_IN_DOUBLE(vin_oldf);

		opt.type = CFGT_FLOAT;
		opt.nvalues = 1;
		opt.values = cells;
		cellA.fpnumber = vin_oldf;
		r = cfg_setopt(&cfg, &opt, vin_tok);
		if ((size_t)sd_k == sd_len && sd_k > 0 && !sd_ranged) {
			V_ASSERT(r == &cellA, "[C04] fully consumed in-range float numeral is accepted whatever errno was");
			V_ASSERT(r == NULL || memcmp(&cellA.fpnumber, &sd_ret, sizeof(double)) == 0, "[C04] stored float is the converted value");
			V_ASSERT(r == NULL || nerr == 0, "[C04] accepted float produces no diagnostic");
			V_WITNESS("float accept path");
		} else {
			V_ASSERT(r == NULL, "[C04] float token that is empty, partly consumed or out of range is rejected");
			V_ASSERT(r != NULL || nerr >= 1, "[C04] rejected float is reported");
			V_ASSERT(r != NULL || memcmp(&cellA.fpnumber, &vin_oldf, sizeof(double)) == 0, "[C04] rejected float leaves the old value");
			V_WITNESS("float reject path");
		}
	}
#endif
	V_WITNESS("end of harness");
	return 0;
}
