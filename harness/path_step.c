/* path_step.c - C17: deterministic file-name resolution.
 *  MODE 1: real cfg_add_searchpath() x NDIRS, then real cfg_searchpath() / cfg_make_fullpath() with a
 *          stat() stub that answers {missing, directory, regular file} per candidate from a symbolic table
 *  MODE 2: real cfg_tilde_expand() on a symbolic name with getpwnam()/getpwuid() stubs that record what
 *          they are handed (the name must be terminated inside its allocation: reading on would be a
 *          read of uninitialised / foreign memory)
 */
#include <stdio.h>
#include <stdlib.h>
#include <string.h>
#include <pwd.h>
#include <unistd.h>
#include <sys/stat.h>
#include "confuse.h"
#include "verif.h"

#ifndef NDIRS
#define NDIRS 3
#endif
#ifndef NNAME
#define NNAME 5
#endif

static int v_stat(const char *path, struct stat *st);
static struct passwd *v_getpwnam(const char *name);
static struct passwd *v_getpwuid(uid_t uid);
static uid_t v_geteuid(void) { return 7; }
#define stat(p, s) v_stat(p, s)
#ifdef __CPROVER__
/* snprintf() with a format made of literal bytes and up to two %s (cfg_make_fullpath() uses "%s/%s"): the format is
 * interpreted, so that a different but equivalent way of composing a name is not misjudged */
static int v_snprintf(char *buf, size_t len, const char *fmt, const char *a, const char *b)
{
	size_t o = 0, i, f;
	int narg = 0;

	for (f = 0; f < 8 && fmt[f]; f++) {
		if (fmt[f] == '%' && fmt[f + 1] == 's') {
			const char *s = narg == 0 ? a : b;
			size_t l = strlen(s);

			narg++;
			f++;
			for (i = 0; i < l; i++, o++)
				if (o + 1 < len)
					buf[o] = s[i];
		} else {
			if (o + 1 < len)
				buf[o] = fmt[f];
			o++;
		}
	}
	if (len > 0)
		buf[o < len ? o : len - 1] = 0;
	return (int)o;
}
#define snprintf v_snprintf
#endif
#define getpwnam v_getpwnam
#define getpwuid v_getpwuid
#define geteuid v_geteuid
/* release accounting of the library's own allocations during the call under test (C07) */
static int lib_live, lib_count_on;
static void *c_malloc(size_t n)
{
	void *p = malloc(n);

	if (lib_count_on && p)
		lib_live++;
	return p;
}
static char *c_strdup(const char *s)
{
	char *p = strdup(s);

	if (lib_count_on && p)
		lib_live++;
	return p;
}
static void c_free(void *p)
{
	if (lib_count_on && p)
		lib_live--;
	free(p);
}
#define malloc c_malloc
#define strdup c_strdup
#define free c_free
#include "confuse.c"
#undef malloc
#undef strdup
#undef free
#undef stat
#include "libc_models.h"
#include "build.h"

/* ---- stat model ---- */
enum { ANS_MISSING, ANS_DIR, ANS_REG };
static int ans[NDIRS + 1]; /* answer for "<dir k>/<file>", last = the absolute / direct name */
static char vin_file[4];
/* the second directory name extends the first one: a textual prefix must not be mistaken for "already listed" */
static const char dirname_of[4][3] = { "a", "ab", "b", "c" };
static int stat_calls, stat_unknown;

static int v_stat(const char *path, struct stat *st)
{
	int k, which = -1;

	stat_calls++;
	for (k = 0; k < NDIRS; k++) {
		size_t dl = strlen(dirname_of[k]);

		/* "<dir>/<file>" */
		if (strncmp(path, dirname_of[k], dl) == 0 && path[dl] == '/' && strcmp(path + dl + 1, vin_file) == 0)
			which = k;
	}
	if (which < 0 && strcmp(path, vin_file) == 0)
		which = NDIRS;
	if (which < 0) {
		stat_unknown++;
		return -1;
	}
	if (ans[which] == ANS_MISSING)
		return -1;
	memset(st, 0, sizeof(*st));
	st->st_mode = ans[which] == ANS_REG ? S_IFREG : S_IFDIR;
	return 0;
}

/* ---- passwd model ---- */
static struct passwd pw_entry;
static char pw_dir[3] = "/h";
static int pw_known_name, pw_known_uid;
static char pw_asked[NNAME + 2];
static int n_getpwnam, n_getpwuid;
static uid_t uid_asked;
static struct passwd *v_getpwnam(const char *name)
{
	size_t l = strlen(name); /* walks the name under pointer checks */
	size_t i;

	n_getpwnam++;
	for (i = 0; i <= l && i <= NNAME; i++)
		pw_asked[i] = name[i];
	pw_asked[NNAME + 1] = 0;
	if (!pw_known_name)
		return NULL;
	pw_entry.pw_dir = pw_dir;
	return &pw_entry;
}
static struct passwd *v_getpwuid(uid_t uid)
{
	n_getpwuid++;
	uid_asked = uid;
	if (!pw_known_uid)
		return NULL;
	pw_entry.pw_dir = pw_dir;
	return &pw_entry;
}

int main(void)
{
#if MODE == 1
	cfg_t root;
	cfg_opt_t *ropts = alloc_opts(0);
	int k, first = -1;
	char *r;

	init_cfg(&root, "root", ropts, CFGF_NONE);
	for (k = 0; k < NDIRS; k++) {
		int rc = cfg_add_searchpath(&root, dirname_of[k]);

		V_ASSUME(rc == CFG_SUCCESS);
	}
	{
		/* one named input per candidate (the replay looks inputs up by name) */
		V_IN_INT(vin_ans0);
		V_IN_INT(vin_ans1);
		V_IN_INT(vin_ans2);
		V_IN_INT(vin_ans3);
		int va[4];

		va[0] = vin_ans0;
		va[1] = vin_ans1;
		va[2] = vin_ans2;
		va[3] = vin_ans3;
		for (k = 0; k <= NDIRS; k++) {
			V_ASSUME(va[k] >= ANS_MISSING && va[k] <= ANS_REG);
			ans[k] = va[k];
		}
	}
	V_FILL_STR(vin_file, 3);
	V_ASSUME(vin_file[0] != 0);
#ifndef REL_SLASH
	V_ASSUME(vin_file[2] == 0);
#else
	V_ASSUME(vin_file[2] != 0 && vin_file[2] != '/');
#endif
#ifdef ABSOLUTE
	V_ASSUME(vin_file[0] == '/');
#else
#ifdef REL_SLASH
	V_ASSUME(vin_file[0] != '/' && vin_file[1] == '/'); /* a relative name with a directory part: still searched */
#else
	V_ASSUME(vin_file[0] != '/' && vin_file[1] != '/'); /* a plain relative name */
#endif
#endif
	lib_count_on = 1;
	r = cfg_searchpath(root.path, vin_file);
	lib_count_on = 0;
	V_ASSERT(lib_live == (r != NULL ? 1 : 0), "[C07] a look-up keeps nothing but the string it returns: every rejected candidate name (missing, directory) is released");
#ifdef ABSOLUTE
	if (ans[NDIRS] == ANS_REG) {
		V_ASSERT(r != NULL && strcmp(r, vin_file) == 0 && r != vin_file, "[C17] an absolute name that is a regular file resolves to a fresh copy of itself");
		V_WITNESS("found");
	} else {
		V_ASSERT(r == NULL, "[C17] an absolute name that is missing or a directory is not found (the search path is bypassed)");
		V_WITNESS("not found");
	}
#else
	for (k = NDIRS - 1; k >= 0; k--)
		if (ans[k] == ANS_REG)
			first = k; /* first directory, in the order added, that holds a regular file of that name */
	if (first >= 0) {
		V_ASSERT(r != NULL, "[C17] a name found in some directory of the search path resolves");
		if (r != NULL)
			V_ASSERT(strncmp(r, dirname_of[first], strlen(dirname_of[first])) == 0 && r[strlen(dirname_of[first])] == '/' &&
					 strcmp(r + strlen(dirname_of[first]) + 1, vin_file) == 0,
				 "[C17] the result is <first directory in the order added that contains a regular file of that name>/<name>");
		V_WITNESS("found");
	} else {
		V_ASSERT(r == NULL, "[C17] directories and missing files never match: not found");
		V_WITNESS("not found");
	}
#endif
	V_ASSERT(stat_unknown == 0, "[C17] only <directory>/<name> candidates (or the absolute name) are probed");
	if (r != NULL)
		V_ASSERT(V_R_OK(r, 1) && r != vin_file, "[C17] the result is a fresh string");
#elif MODE == 2
	char vin_name[NNAME + 1];
	char *r;
	int slash = -1, i, len;

	{
		V_IN_BOOL(vin_known_name);
		V_IN_BOOL(vin_known_uid);

		pw_known_name = vin_known_name;
		pw_known_uid = vin_known_uid;
	}
	V_FILL_STR(vin_name, NNAME);
	len = (int)strlen(vin_name);
	for (i = len - 1; i >= 0; i--)
		if (vin_name[i] == '/')
			slash = i; /* first slash */
	r = cfg_tilde_expand(vin_name);
	V_ASSERT(r != NULL && V_R_OK(r, 1) && r != vin_name, "[C17] the result is a fresh string");
	if (r != NULL) {
		if (vin_name[0] != '~') {
			V_ASSERT(strcmp(r, vin_name) == 0, "[C17] a name without a leading ~ is left unchanged");
			V_ASSERT(n_getpwnam == 0 && n_getpwuid == 0, "[C17] no account lookup without a leading ~");
			V_WITNESS("plain");
		} else if (vin_name[1] == '/' || vin_name[1] == 0) {
			V_ASSERT(n_getpwuid == 1 && n_getpwnam == 0 && uid_asked == 7, "[C17] a bare ~ looks up the effective user");
			if (pw_known_uid)
				V_ASSERT(r[0] == '/' && r[1] == 'h' && strcmp(r + 2, vin_name + 1) == 0, "[C17] ~ is replaced by the home directory, the rest is kept");
			else
				V_ASSERT(strcmp(r, vin_name) == 0, "[C17] ~ of an unknown account is left unchanged");
			V_WITNESS("self");
		} else {
			int ulen = (slash >= 0 ? slash : len) - 1;

			V_ASSERT(n_getpwnam == 1 && n_getpwuid == 0, "[C17] ~user looks the account up by name, once");
			V_ASSERT((int)strlen(pw_asked) == ulen && memcmp(pw_asked, vin_name + 1, (size_t)ulen) == 0, "[C17] ~user looks up exactly the user name between ~ and the first slash");
			if (pw_known_name)
				V_ASSERT(r[0] == '/' && r[1] == 'h' && strcmp(r + 2, vin_name + 1 + ulen) == 0, "[C17] ~user is replaced by that account's home directory, the rest is kept");
			else
				V_ASSERT(strcmp(r, vin_name) == 0, "[C17] ~user of an unknown account is left unchanged");
			V_WITNESS("user");
		}
	}
#endif
	V_WITNESS("end of harness");
	return 0;
}
