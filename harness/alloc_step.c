/* alloc_step.c - C18 (one allocation of the library's own code fails) and C16 (deep copy of the
 * declarations): one allocating function per obligation, the index of the failing allocation is a
 * symbolic variable (exhaustive over all allocations of the call inside the solver, plus "none").
 *
 * confuse.c is compiled with malloc/calloc/realloc/reallocarray/strdup/strndup mapped to failable
 * wrappers.  Post-conditions: the call returns (no abort), failure is visible in the return value when
 * the effect did not happen, every object still reachable from the option/context is live
 * (__CPROVER_r_ok), and objects the caller owns are untouched.
 */
#include <stdio.h>
#include <stdlib.h>
#include <string.h>
#include <pwd.h>
#include <unistd.h>
#include "confuse.h"
#include "verif.h"

static int vf_count, vf_fail_at = -1, vf_failed;
static int vf_hit(void)
{
	if (vf_count++ == vf_fail_at) {
		vf_failed = 1;
		return 1;
	}
	return 0;
}
static void *vf_malloc(size_t n) { return vf_hit() ? NULL : malloc(n); }
static void *vf_calloc(size_t a, size_t b)
{
	if (vf_hit())
		return NULL;
	return calloc(a, b); /* the solver's own zero-initialised allocation (keeps end markers constant) */
}
static void *vf_realloc_ptrs(void *p, size_t n)
{
	void **q;
	size_t old, cnt = n / sizeof(void *), i;

	if (vf_hit())
		return NULL;
	q = malloc(n);
	if (!q)
		return NULL;
#ifdef __CPROVER__
	old = p ? __CPROVER_OBJECT_SIZE(p) / sizeof(void *) : 0;
#else
	old = cnt ? cnt - 1 : 0;
#endif
	for (i = 0; i < old && i < cnt; i++)
		q[i] = ((void **)p)[i];
	free(p);
	return q;
}
static char *vf_strdup(const char *s)
{
	char *r;
	size_t l = strlen(s);

	if (vf_hit())
		return NULL;
	r = malloc(l + 1);
	if (r)
		memcpy(r, s, l + 1);
	return r;
}
static char *vf_strndup(const char *s, size_t n)
{
	char *r;
	size_t l = 0;

	if (vf_hit())
		return NULL;
	while (l < n && s[l])
		l++;
	r = malloc(l + 1);
	if (r) {
		memcpy(r, s, l);
		r[l] = 0;
	}
	return r;
}
static void *vf_reallocarray(void *p, size_t nmemb, size_t size);
static int n_abort;
static void vf_abort(void) { n_abort++; }

#define malloc vf_malloc
#define calloc vf_calloc
#define realloc vf_realloc_ptrs
#define reallocarray vf_reallocarray
#define strdup vf_strdup
#define strndup vf_strndup
#define abort vf_abort
#ifdef __CPROVER__
/* snprintf("%s/%s") as used by cfg_make_fullpath() */
static int v_snprintf(char *buf, size_t len, const char *fmt, const char *a, const char *b)
{
	size_t la = strlen(a), lb = strlen(b), i, o = 0;

	(void)fmt;
	for (i = 0; i < la; i++, o++)
		if (o + 1 < len)
			buf[o] = a[i];
	if (o + 1 < len)
		buf[o] = '/';
	o++;
	for (i = 0; i < lb; i++, o++)
		if (o + 1 < len)
			buf[o] = b[i];
	if (len > 0)
		buf[o < len ? o : len - 1] = 0;
	return (int)(la + 1 + lb);
}
#define snprintf v_snprintf
#endif
#define getpwnam v_getpwnam
#define fmemopen v_fmemopen
#define fclose v_fclose
#define stat(p, s) v_stat(p, s)
static FILE *v_fmemopen(void *b, size_t n, const char *m);
static int v_fclose(FILE *fp);
struct stat;
static int v_stat(const char *p, struct stat *st);
#define getpwuid v_getpwuid
#define geteuid v_geteuid
static uid_t v_geteuid(void) { return 0; }
static struct passwd *v_getpwnam(const char *name);
static struct passwd *v_getpwuid(uid_t uid);
#include "confuse.c"
#undef malloc
#undef calloc
#undef realloc
#undef reallocarray
#undef strdup
#undef strndup
#undef abort
#undef fmemopen
#undef fclose
#undef stat
#define VM_NO_STRNDUP
#include "libc_models.h"
#include "build.h"

static void *vf_reallocarray(void *p, size_t nmemb, size_t size)
{
	cfg_opt_t *q;
	size_t old, i;

	if (vf_hit())
		return NULL;
	q = malloc(nmemb * size);
	if (!q)
		return NULL;
#ifdef __CPROVER__
	old = p ? __CPROVER_OBJECT_SIZE(p) / sizeof(cfg_opt_t) : 0;
#else
	old = nmemb >= 1 ? nmemb - 1 : 0;
#endif
	for (i = 0; i < old && i < nmemb; i++)
		q[i] = ((cfg_opt_t *)p)[i];
	free(p);
	return q;
}

static FILE vf_file;
static int n_fopen_like, n_fclose_like;
static FILE *v_fmemopen(void *b, size_t n, const char *m)
{
	(void)b;
	(void)n;
	(void)m;
	n_fopen_like++;
	return &vf_file;
}
static int v_fclose(FILE *fp)
{
	(void)fp;
	n_fclose_like++;
	return 0;
}
static int v_stat(const char *p, struct stat *st)
{
	(void)p;
	(void)st;
	return -1; /* nothing exists: the search visits every directory */
}
static int first_lex_line = -1;
int cfg_yylex(cfg_t *cfg)
{
	if (first_lex_line < 0)
		first_lex_line = cfg->line; /* the line the parse starts counting from */
	return -1; /* empty input */
}
void cfg_yylex_destroy(void) { }
int cfg_lexer_include(cfg_t *cfg, const char *f)
{
	(void)cfg;
	(void)f;
	return 0;
}
static int n_scan_begin, n_scan_end;
void cfg_scan_fp_begin(FILE *fp)
{
	(void)fp;
	n_scan_begin++;
}
void cfg_scan_fp_end(void) { n_scan_end++; }
static int cf_called;
static int cf_func(cfg_t *cfg, cfg_opt_t *opt, int argc, const char **argv)
{
	(void)cfg;
	(void)opt;
	(void)argc;
	(void)argv;
	cf_called++;
	return 0;
}

static struct passwd pw_entry;
static char pw_dir[3];
static int pw_known;
static char pw_asked[8];
static int pw_asked_terminated;
static struct passwd *v_getpwnam(const char *name)
{
	int i;

	pw_asked_terminated = 0;
	for (i = 0; i < 7; i++) {
		pw_asked[i] = name[i];
		if (!name[i]) {
			pw_asked_terminated = 1;
			break;
		}
	}
	if (!pw_known)
		return NULL;
	pw_entry.pw_dir = pw_dir;
	return &pw_entry;
}
static struct passwd *v_getpwuid(uid_t uid)
{
	(void)uid;
	if (!pw_known)
		return NULL;
	pw_entry.pw_dir = pw_dir;
	return &pw_entry;
}

#define M_ADDVAL 1
#define M_ADDOPT 2
#define M_DUPOPT 3
#define M_SETOPT_STR 4
#define M_SETOPT_SEC 5
#define M_SETNSTR 6
#define M_SETCOMMENT 7
#define M_SETMULTI 8
#define M_ADD_SEARCHPATH 9
#define M_TILDE 10
#define M_INIT 11
#define M_ADDTSEC 12
#define M_SIBLINGS 13
#define M_PARSEBUF 14
#define M_CALLFUNC 15
#define M_SEARCHPATH 16
#define M_GETOPT_PATH 17
#define M_SETNINT_LIST 18

#ifndef NV
#define NV 1
#endif

static void arm(void)
{
#ifdef FAIL_AT
	/* compound calls: the failing allocation is a concrete obligation parameter (one obligation per k) */
	const int vin_fail_at = FAIL_AT;
#else
	V_IN_INT(vin_fail_at);

	V_ASSUME(vin_fail_at >= -1 && vin_fail_at < 24);
#endif
	vf_count = 0;
	vf_failed = 0;
	vf_fail_at = vin_fail_at;
}

/* every value cell of a (non-section) option is live */
static void assert_opt_live(cfg_opt_t *o)
{
	unsigned i;

	V_ASSERT(o->nvalues == 0 || V_R_OK(o->values, o->nvalues * sizeof(cfg_value_t *)), "[C18] the value vector stays a live array of its recorded length");
	for (i = 0; i < 3 && i < o->nvalues; i++) {
		V_ASSERT(V_R_OK(o->values[i], sizeof(cfg_value_t)), "[C18] every counted value cell is live");
		if (o->type == CFGT_STR && V_R_OK(o->values[i], sizeof(cfg_value_t)))
			V_ASSERT(o->values[i]->string == NULL || V_R_OK(o->values[i]->string, 1), "[C18] a stored string is either absent or live (never freed and kept)");
		if (o->type == CFGT_SEC && V_R_OK(o->values[i], sizeof(cfg_value_t)))
			V_ASSERT(o->values[i]->section != NULL && V_R_OK(o->values[i]->section, sizeof(cfg_t)), "[C18] every counted section instance is a live, completely built context");
	}
	V_ASSERT(o->comment == NULL || V_R_OK(o->comment, 1), "[C18] the annotation is either absent or live");
}

int main(void)
{
	static cfg_opt_t sub[] = { CFG_INT("a", 7, CFGF_NONE), CFG_STR("z", "q", CFGF_NONE), CFG_END() };
	cfg_t root;
	cfg_opt_t *ropts = alloc_opts(1);
	cfg_opt_t *O = &ropts[0];
	unsigned i;

	(void)sub;
	(void)i;
#if MODE == M_ADDVAL
	{
		cfg_value_t *v;
		cfg_value_t *cells[3];

		init_opt(O, "o", CFGT_INT, CFGF_LIST);
		alloc_values(O, NV);
		for (i = 0; i < NV; i++)
			cells[i] = O->values[i];
		arm();
		v = cfg_addval(O);
		if (v == NULL) {
			V_ASSERT(vf_failed, "[C18] adding a value only fails when an allocation failed");
			V_ASSERT(O->nvalues == NV, "[C18] a failed append leaves the count unchanged");
			V_WITNESS("failure path");
		} else {
			V_ASSERT(O->nvalues == NV + 1 && O->values[NV] == v, "[C18] a successful append is counted");
			V_WITNESS("success path");
		}
		for (i = 0; i < NV; i++)
			V_ASSERT(O->values[i] == cells[i], "[C18] existing values survive a (failed) append");
		assert_opt_live(O);
	}
#elif MODE == M_ADDOPT
	{
		cfg_opt_t *kv = alloc_opts(NV);
		cfg_opt_t *r;
		cfg_t sec;
		char key[2] = { 'k', 0 };

		for (i = 0; i < NV; i++) {
			char nm[2] = { (char)('a' + i), 0 };

			init_opt(&kv[i], nm, CFGT_STR, CFGF_NONE);
		}
		init_cfg(&sec, "k", kv, CFGF_KEYSTRVAL);
		arm();
		r = cfg_addopt(&sec, key);
		V_ASSERT(sec.opts != NULL && V_R_OK(sec.opts, (NV + 1) * sizeof(cfg_opt_t)), "[C18] the option array of the context stays live");
		if (sec.opts != NULL && V_R_OK(sec.opts, (NV + 1) * sizeof(cfg_opt_t))) {
			for (i = 0; i < NV; i++)
				V_ASSERT(sec.opts[i].name != NULL && V_R_OK(sec.opts[i].name, 2) && sec.opts[i].name[0] == 'a' + (int)i, "[C18] existing keys survive a (failed) key creation");
			if (r == NULL) {
				V_ASSERT(vf_failed, "[C18] key creation only fails when an allocation failed");
				V_ASSERT(sec.opts[NV].name == NULL, "[C18] after a failed key creation the option array is still terminated where it was");
				V_WITNESS("failure path");
			} else {
				V_ASSERT(r == &sec.opts[NV] && r->name != NULL && r->name[0] == 'k', "[C18] the new key is the last option");
				V_ASSERT(V_R_OK(&sec.opts[NV + 1], sizeof(cfg_opt_t)) && sec.opts[NV + 1].name == NULL, "[C18] the grown option array is terminated");
				V_WITNESS("success path");
			}
		}
	}
#elif MODE == M_DUPOPT
	{
		/* caller-owned declarations on the heap: 2 options, the second a section with 1 sub-option */
		cfg_opt_t *decl = alloc_opts(2), *dsub = alloc_opts(1), *d;
		char vin_n0[2], vin_c0[2], vin_ds[2], vin_dp[2], vin_n1[2], vin_sn[2];
		char *p_n0, *p_c0, *p_ds, *p_dp, *p_n1, *p_sn;

		V_FILL_STR(vin_n0, 1);
		V_FILL_STR(vin_c0, 1);
		V_FILL_STR(vin_ds, 1);
		V_FILL_STR(vin_dp, 1);
		V_FILL_STR(vin_n1, 1);
		V_FILL_STR(vin_sn, 1);
		V_ASSUME(vin_n0[0] && vin_n1[0] && vin_sn[0]);
		init_opt(&decl[0], vin_n0, CFGT_STR, CFGF_LIST);
		decl[0].comment = p_c0 = heap_str(vin_c0);
		decl[0].def.string = p_ds = heap_str(vin_ds);
		decl[0].def.parsed = p_dp = heap_str(vin_dp);
		decl[0].def.number = 42;
		p_n0 = (char *)decl[0].name;
		init_opt(&decl[1], vin_n1, CFGT_SEC, CFGF_MULTI);
		p_n1 = (char *)decl[1].name;
		init_opt(&dsub[0], vin_sn, CFGT_INT, CFGF_NONE);
		dsub[0].def.number = 9;
		p_sn = (char *)dsub[0].name;
		decl[1].subopts = dsub;
		/* an end marker is any entry without a name: this one carries pointers (a table filled from a prototype entry) */
		decl[2].comment = p_c0;
		decl[2].def.string = p_ds;
		decl[2].def.parsed = p_dp;
		decl[2].subopts = dsub;
		arm();
		d = cfg_dupopt_array(decl);
		/* the caller's declarations are never touched, whatever happened */
		V_ASSERT(V_R_OK(decl, 3 * sizeof(cfg_opt_t)) && V_R_OK(dsub, 2 * sizeof(cfg_opt_t)), "[C16] the caller's declaration arrays are not released by the copy");
		V_ASSERT(decl[0].name == p_n0 && V_R_OK(p_n0, 2) && decl[0].comment == p_c0 && V_R_OK(p_c0, 1) && decl[0].def.string == p_ds && V_R_OK(p_ds, 1) &&
				 decl[0].def.parsed == p_dp && V_R_OK(p_dp, 1) && decl[1].name == p_n1 && V_R_OK(p_n1, 2) && decl[1].subopts == dsub && dsub[0].name == p_sn && V_R_OK(p_sn, 2),
			 "[C16] the caller's strings are neither replaced nor released by the copy");
		if (d == NULL) {
			V_ASSERT(vf_failed, "[C18] copying the declarations only fails when an allocation failed");
			V_WITNESS("failure path");
		} else {
			V_ASSERT(V_R_OK(d, 3 * sizeof(cfg_opt_t)), "[C16] the copy is a live array");
			V_ASSERT(d[2].name == NULL && d[2].comment == NULL && d[2].def.string == NULL && d[2].def.parsed == NULL && d[2].subopts == NULL && d[2].values == NULL,
				 "[C16] the copy's end marker holds nothing of the caller's (a free-form key created in that slot later starts clean)");
			V_ASSERT(d != decl && d[0].name != p_n0 && d[0].comment != p_c0 && d[0].def.string != p_ds && d[0].def.parsed != p_dp && d[1].name != p_n1 && d[1].subopts != dsub &&
					 d[1].subopts != NULL && d[1].subopts[0].name != p_sn,
				 "[C16] every string and nested array of the copy is a fresh object");
			/* now the caller poisons and releases everything it owns */
			p_n0[0] = 'X'; p_c0[0] = 'X'; p_ds[0] = 'X'; p_dp[0] = 'X'; p_n1[0] = 'X'; p_sn[0] = 'X';
			free(p_n0); free(p_c0); free(p_ds); free(p_dp); free(p_n1); free(p_sn);
			dsub[0].def.number = 0;
			free(dsub);
			free(decl);
			V_ASSERT(d[0].name != NULL && strcmp(d[0].name, vin_n0) == 0 && d[0].comment != NULL && strcmp(d[0].comment, vin_c0) == 0 &&
					 d[0].def.string != NULL && strcmp(d[0].def.string, vin_ds) == 0 && d[0].def.parsed != NULL && strcmp(d[0].def.parsed, vin_dp) == 0,
				 "[C16] the copy keeps names, defaults and annotations after the declarations are gone");
			V_ASSERT(d[0].type == CFGT_STR && d[0].flags == CFGF_LIST && d[0].def.number == 42 && d[1].type == CFGT_SEC && d[1].flags == CFGF_MULTI, "[C16] scalar fields are copied");
			V_ASSERT(d[1].name != NULL && strcmp(d[1].name, vin_n1) == 0 && d[1].subopts[0].name != NULL && strcmp(d[1].subopts[0].name, vin_sn) == 0 && d[1].subopts[0].def.number == 9 &&
					 d[1].subopts[1].name == NULL && d[2].name == NULL,
				 "[C16] nested declarations are copied in depth and terminated");
			V_WITNESS("success path");
		}
	}
#elif MODE == M_SETOPT_STR || MODE == M_SETNSTR
	{
		char vin_new[3];
		char *old;

		V_FILL_STR(vin_new, 2);
		init_opt(O, "o", CFGT_STR, CFGF_NONE);
		init_cfg(&root, "root", ropts, CFGF_NONE);
		alloc_values(O, 1);
		old = O->values[0]->string = heap_str("v");
		arm();
#if MODE == M_SETOPT_STR
		{
			cfg_value_t *r = cfg_setopt(&root, O, vin_new);

			if (r == NULL) {
				V_ASSERT(vf_failed, "[C18] set-from-text of a string only fails when an allocation failed");
				V_WITNESS("failure path");
			} else {
				V_ASSERT(O->values[0]->string != NULL && strcmp(O->values[0]->string, vin_new) == 0, "[C18] a successful string set stores the text");
				V_WITNESS("success path");
			}
		}
#else
		{
			int rc = cfg_opt_setnstr(O, vin_new, 0);

			if (rc != CFG_SUCCESS) {
				V_ASSERT(vf_failed, "[C18] the string setter only fails when an allocation failed");
				V_ASSERT(O->values[0]->string == old && V_R_OK(old, 2) && old[0] == 'v', "[C18] a failed string setter keeps the old string");
				V_WITNESS("failure path");
			} else {
				V_ASSERT(O->values[0]->string != NULL && strcmp(O->values[0]->string, vin_new) == 0, "[C18] a successful string setter stores the text");
				V_WITNESS("success path");
			}
		}
#endif
		(void)old;
		assert_opt_live(O);
	}
#elif MODE == M_SETOPT_SEC || MODE == M_ADDTSEC
	{
		cfg_t *pre[2];

		init_opt(O, "o", CFGT_SEC, MODE == M_ADDTSEC ? (CFGF_MULTI | CFGF_TITLE) : CFGF_MULTI);
		O->subopts = sub;
		init_cfg(&root, "root", ropts, CFGF_NONE);
		alloc_values(O, NV);
		for (i = 0; i < NV; i++) {
			char t[2] = { (char)('A' + i), 0 };

			pre[i] = O->values[i]->section = mk_section2("o", MODE == M_ADDTSEC ? t : NULL, CFGF_NONE);
		}
		arm();
#if MODE == M_SETOPT_SEC
		{
			cfg_value_t *r = cfg_setopt(&root, O, NULL);

			if (r == NULL) {
				V_ASSERT(vf_failed, "[C18] creating a section instance only fails when an allocation failed");
				V_WITNESS("failure path");
			} else {
				V_ASSERT(O->nvalues == NV + 1 && r->section != NULL, "[C18] a created section instance is counted");
				V_WITNESS("success path");
			}
		}
#else
		{
			cfg_t *s = cfg_addtsec(&root, "o", "N");

			if (s == NULL) {
				V_ASSERT(vf_failed, "[C18] adding a titled section only fails when an allocation failed");
				V_WITNESS("failure path");
			} else {
				V_ASSERT(O->nvalues == NV + 1, "[C18] an added section is counted");
				V_WITNESS("success path");
			}
		}
#endif
		for (i = 0; i < NV; i++)
			V_ASSERT(O->values[i]->section == pre[i] && V_R_OK(pre[i], sizeof(cfg_t)), "[C18] existing instances survive a (failed) section creation");
		assert_opt_live(O);
		V_ASSERT(n_abort == 0, "[C18] the process is not aborted");
	}
#elif MODE == M_SETCOMMENT
	{
		char *old;
		int rc;

		init_opt(O, "o", CFGT_INT, CFGF_NONE);
		old = O->comment = heap_str("c");
		arm();
		rc = cfg_opt_setcomment(O, "n");
		if (rc != CFG_SUCCESS) {
			V_ASSERT(vf_failed, "[C18] annotating only fails when an allocation failed");
			V_ASSERT(O->comment == old && V_R_OK(old, 2) && old[0] == 'c', "[C18] a failed annotation keeps the old one");
			V_WITNESS("failure path");
		} else {
			V_ASSERT(O->comment != NULL && strcmp(O->comment, "n") == 0, "[C18] a successful annotation is stored");
			V_WITNESS("success path");
		}
		assert_opt_live(O);
	}
#elif MODE == M_SETMULTI
	{
		char *vals[2] = { "5", "6" };
		cfg_value_t *cell0;
		int rc;

		init_opt(O, "o", CFGT_INT, CFGF_LIST);
		init_cfg(&root, "root", ropts, CFGF_NONE);
		alloc_values(O, 1);
		O->values[0]->number = 1;
		cell0 = O->values[0];
		O->comment = heap_str("c");
		arm();
		rc = cfg_opt_setmulti(&root, O, 2, vals);
		if (rc != CFG_SUCCESS) {
			V_ASSERT(vf_failed, "[C18] a bulk set of convertible values only fails when an allocation failed");
			V_ASSERT(O->nvalues == 1 && O->values != NULL && O->values[0] == cell0 && V_R_OK(cell0, sizeof(*cell0)) && cell0->number == 1, "[C18] a failed bulk set restores the old values");
			V_WITNESS("failure path");
		} else {
			V_ASSERT(O->nvalues == 2 && O->values[0]->number == 5 && O->values[1]->number == 6, "[C18] a successful bulk set stores the new values");
			V_WITNESS("success path");
		}
		assert_opt_live(O);
	}
#elif MODE == M_ADD_SEARCHPATH
	{
		int rc;
		cfg_searchpath_t *old;

		init_cfg(&root, "root", ropts, CFGF_NONE);
		init_opt(O, "o", CFGT_INT, CFGF_NONE);
		old = malloc(sizeof(*old));
		V_ASSUME(old != NULL);
		old->dir = heap_str("a");
		old->next = NULL;
		root.path = old;
		arm();
		rc = cfg_add_searchpath(&root, "b");
		if (rc != CFG_SUCCESS) {
			V_ASSERT(vf_failed, "[C18] adding a search directory only fails when an allocation failed");
			V_ASSERT(root.path == old, "[C18] a failed add leaves the search path unchanged");
			V_WITNESS("failure path");
		} else {
			V_ASSERT(root.path != NULL && root.path != old && root.path->next == old && root.path->dir != NULL && strcmp(root.path->dir, "b") == 0, "[C18] a successful add prepends the directory");
			V_WITNESS("success path");
		}
		V_ASSERT(V_R_OK(old, sizeof(*old)) && V_R_OK(old->dir, 2), "[C18] the existing search path stays live");
	}
#elif MODE == M_TILDE
	{
		char vin_name[6];
		char *r;
		V_IN_BOOL(vin_known);

		V_FILL_STR(vin_name, 5);
		pw_known = vin_known;
		pw_dir[0] = '/';
		pw_dir[1] = 'h';
		pw_dir[2] = 0;
		arm();
		r = cfg_tilde_expand(vin_name);
		if (r == NULL) {
			V_ASSERT(vf_failed, "[C18] tilde expansion only fails when an allocation failed");
			V_WITNESS("failure path");
		} else {
			V_ASSERT(!vf_failed, "[C18] a tilde expansion whose allocation failed reports failure (the unexpanded name is not handed back as a result)");
			V_ASSERT(V_R_OK(r, 1), "[C18] the expanded name is a live string");
			if (vin_name[0] == '~' && vin_known)
				V_ASSERT(r[0] == '/' && r[1] == 'h', "[C17] for an existing account a result starts with the home directory, whatever happened on the way (never the unexpanded name)");
			V_WITNESS("success path");
		}
	}
#elif MODE == M_INIT
	{
#ifdef INIT_SEC
		/* a schema with a single section (created at initialisation) and context flags: the pre-created instance
		 * carries the context's flags like every instance created later */
		static cfg_opt_t isub[] = { CFG_INT("a", 7, CFGF_NONE), CFG_END() };
		static cfg_opt_t decl[] = { CFG_INT("i", 3, CFGF_NONE), CFG_SEC("s", isub, CFGF_NONE), CFG_END() };
#define INIT_FLAGS (CFGF_NOCASE | CFGF_IGNORE_UNKNOWN)
#else
		static cfg_opt_t decl[] = { CFG_INT("i", 3, CFGF_NONE), CFG_END() };
#define INIT_FLAGS CFGF_NONE
#endif
		cfg_t *c;

		arm();
		c = cfg_init(decl, INIT_FLAGS);
#ifdef INIT_SEC
		if (c != NULL && c->opts != NULL) {
			cfg_t *is = cfg_opt_getnsec(&c->opts[1], 0);

			V_ASSERT(c->flags == INIT_FLAGS, "[C01] a context carries the flags it was created with");
			V_ASSERT(is != NULL && (is->flags & INIT_FLAGS) == INIT_FLAGS, "[C01] a single section created at initialisation carries the context's flags (case-insensitive names and ignore-unknown hold at every nesting depth)");
			V_ASSERT(is != NULL && cfg_opt_size(&is->opts[0]) == 1 && cfg_opt_getnint(&is->opts[0], 0) == 7, "[C01] the section created at initialisation holds its declared defaults");
		}
#endif
		V_ASSERT(n_abort == 0, "[C18] initialisation does not abort the process");
		if (c == NULL) {
			V_ASSERT(vf_failed, "[C18] initialisation only fails when an allocation failed");
			V_WITNESS("failure path");
		} else {
			V_ASSERT(V_R_OK(c, sizeof(cfg_t)) && c->opts != NULL && c->name != NULL, "[C18] a returned context is completely built");
			if (c->opts != NULL) {
				assert_opt_live(&c->opts[0]);
				V_ASSERT(cfg_opt_size(&c->opts[0]) == 1 && cfg_opt_getnint(&c->opts[0], 0) == 3, "[C18] a returned context holds the declared defaults (a failed default is reported, not dropped silently)");
			}
			V_WITNESS("success path");
		}
	}
#elif MODE == M_PARSEBUF
	{
		char *oldname;
		int rc;

		init_opt(O, "o", CFGT_INT, CFGF_NONE);
		init_cfg(&root, "root", ropts, CFGF_NONE);
		oldname = root.filename;
		{
			V_IN_INT(vin_prev_line);
			V_ASSUME(vin_prev_line >= 0 && vin_prev_line < 100000);
			root.line = vin_prev_line; /* wherever an earlier parse into this context stopped */
		}
		arm();
		rc = cfg_parse_buf(&root, "x");
		if (first_lex_line >= 0)
			V_ASSERT(first_lex_line == 1, "[C06] every parse starts counting at line 1, wherever an earlier parse into the same context stopped");
		if (rc != CFG_SUCCESS) {
			V_ASSERT(vf_failed, "[C18] parsing an (empty) buffer only fails when an allocation failed");
			V_ASSERT(rc == CFG_PARSE_ERROR || rc == CFG_FILE_ERROR, "[C18] a failed parse reports one of the documented error codes");
			V_WITNESS("failure path");
		} else {
			V_WITNESS("success path");
		}
		V_ASSERT(root.filename != NULL && V_R_OK(root.filename, 1), "[C18] the context's file name is live after a (failed) parse call");
		V_ASSERT(n_scan_begin == n_scan_end && n_fopen_like == n_fclose_like, "[C18] a (failed) parse call leaves no source pushed and no stream open");
		(void)oldname;
	}
#elif MODE == M_CALLFUNC
	{
		cfg_opt_t fo = CFG_STR(NULL, NULL, 0);
		cfg_value_t *c0;
		char *s0;
		int rc;

		init_opt(O, "g", CFGT_FUNC, CFGF_NONE);
		O->func = cf_func;
		init_cfg(&root, "root", ropts, CFGF_NONE);
		vf_fail_at = -1;
		c0 = cfg_addval(&fo);
		V_ASSUME(c0 != NULL);
		s0 = c0->string = heap_str("A");
		arm();
		rc = call_function(&root, O, &fo);
		if (rc != 0) {
			V_ASSERT(vf_failed && cf_called == 0, "[C18] a call only fails before the callback when an allocation failed");
			V_ASSERT(fo.nvalues == 1 && fo.values[0] == c0 && V_R_OK(c0, sizeof(*c0)) && V_R_OK(s0, 2), "[C18] after a failed call the collected arguments are still owned (and live) for the caller to release");
			V_WITNESS("failure path");
		} else {
			V_ASSERT(cf_called == 1 && fo.nvalues == 0, "[C18] a successful call consumes the arguments");
			V_WITNESS("success path");
		}
	}
#elif MODE == M_SEARCHPATH
	{
		cfg_searchpath_t *p1 = malloc(sizeof(*p1)), *p2 = malloc(sizeof(*p2));
		char *r;

		V_ASSUME(p1 != NULL && p2 != NULL);
		p1->dir = heap_str("a");
		p1->next = p2;
		p2->dir = heap_str("b");
		p2->next = NULL;
		arm();
		r = cfg_searchpath(p1, "f");
		V_ASSERT(r == NULL, "[C18] nothing is found when no candidate exists (or an allocation failed)");
		V_ASSERT(V_R_OK(p1, sizeof(*p1)) && V_R_OK(p2, sizeof(*p2)) && V_R_OK(p1->dir, 2) && V_R_OK(p2->dir, 2) && p1->next == p2, "[C18] a (failed) search leaves the search path intact");
		V_WITNESS("failure path");
		V_WITNESS("success path");
	}
#elif MODE == M_GETOPT_PATH
	{
		cfg_opt_t *r;
		cfg_t *sec;

		init_opt(O, "s", CFGT_SEC, CFGF_DEFINIT);
		O->subopts = sub;
		init_cfg(&root, "root", ropts, CFGF_NONE);
		alloc_values(O, 1);
		sec = O->values[0]->section = mk_section2("s", NULL, CFGF_NONE);
		arm();
		r = cfg_getopt(&root, "s|a");
		if (r == NULL) {
			V_ASSERT(vf_failed, "[C18] a by-path look-up of an existing option only fails when an allocation failed");
			V_WITNESS("failure path");
		} else {
			V_ASSERT(r == &sec->opts[0], "[C18] a by-path look-up finds the option");
			V_WITNESS("success path");
		}
		V_ASSERT(O->values[0]->section == sec && V_R_OK(sec, sizeof(cfg_t)), "[C18] a (failed) look-up changes nothing");
	}
#elif MODE == M_SETNINT_LIST
	{
		int rc;
		cfg_value_t *cells[2];

		init_opt(O, "o", CFGT_INT, CFGF_LIST);
		alloc_values(O, NV);
		for (i = 0; i < NV; i++) {
			O->values[i]->number = (long)i + 10;
			cells[i] = O->values[i];
		}
		arm();
		rc = cfg_opt_setnint(O, 99, NV);
		if (rc != CFG_SUCCESS) {
			V_ASSERT(vf_failed && O->nvalues == NV, "[C18] appending through the indexed setter only fails when an allocation failed, and then appends nothing");
			V_WITNESS("failure path");
		} else {
			V_ASSERT(O->nvalues == NV + 1 && O->values[NV]->number == 99, "[C18] a successful append stores the value");
			V_WITNESS("success path");
		}
		for (i = 0; i < NV; i++)
			V_ASSERT(O->values[i] == cells[i] && O->values[i]->number == (long)i + 10, "[C18] existing elements survive a (failed) append");
		assert_opt_live(O);
	}
#elif MODE == M_SIBLINGS
	{
		/* two instances of one multi section created by the real cfg_setopt(): nothing mutable is shared
		 * between them or with the declarations */
		cfg_value_t *v1, *v2;
		cfg_t *s1, *s2;
		V_IN_LONG(vin_new);

		V_ASSUME(vin_new != 7);
		init_opt(O, "o", CFGT_SEC, CFGF_MULTI);
		O->subopts = sub;
		init_cfg(&root, "root", ropts, CFGF_NONE);
		vf_fail_at = -1;
		v1 = cfg_setopt(&root, O, NULL);
		v2 = cfg_setopt(&root, O, NULL);
		V_ASSUME(v1 != NULL && v2 != NULL);
		s1 = v1->section;
		s2 = v2->section;
		V_ASSERT(s1 != NULL && s2 != NULL && s1 != s2, "[C16] sibling instances are distinct contexts");
		V_ASSERT(s1->opts != s2->opts && s1->opts != sub && s2->opts != sub, "[C16] every instance has its own option array, none uses the declarations");
		V_ASSERT(s1->opts[0].name != s2->opts[0].name && s1->opts[0].name != sub[0].name && s1->opts[1].def.string != s2->opts[1].def.string &&
				 s1->opts[1].def.string != sub[1].def.string && s1->name != s2->name,
			 "[C16] names and default strings of sibling instances are separate copies");
		V_ASSERT(s1->opts[0].values != s2->opts[0].values && s1->opts[0].values[0] != s2->opts[0].values[0] &&
				 s1->opts[1].values[0]->string != s2->opts[1].values[0]->string,
			 "[C16] default values of sibling instances are separate objects");
		/* write through every mutable object of instance 1 (direct writes: the setters are C09's) */
		s1->opts[0].values[0]->number = vin_new;
		s1->opts[1].values[0]->string[0] = 'X';
		((char *)s1->opts[0].name)[0] = 'X';
		((char *)s1->opts[1].def.string)[0] = 'X';
		s1->opts[0].flags |= CFGF_MODIFIED;
		s1->opts[0].validcb = (cfg_validate_callback_t)0;
		V_ASSERT(s2->opts[0].values[0]->number == 7 && s2->opts[1].values[0]->string[0] == 'q' && s2->opts[0].name[0] == 'a' && s2->opts[1].def.string[0] == 'q' &&
				 (s2->opts[0].flags & CFGF_MODIFIED) == 0,
			 "[C16] changing values, names or defaults in one instance is invisible in its sibling");
		V_ASSERT(sub[0].nvalues == 0 && sub[0].values == NULL && sub[0].name[0] == 'a' && sub[1].def.string != NULL && sub[1].def.string[0] == 'q',
			 "[C16] changing an instance never writes to the declarations");
		V_WITNESS("success path");
	}
#endif
	V_ASSERT(n_abort == 0, "[C18] the process is not aborted on an allocation failure");
	V_WITNESS("end of harness");
	return 0;
}
