/* init_step.c - C01 (unmentioned options keep their declared defaults): the real cfg_init_defaults() on a
 * harness-built option array, default values symbolic. */
#include <stdio.h>
#include <stdlib.h>
#include <string.h>
#include "confuse.h"
#include "verif.h"
#ifdef __CPROVER__
static void *v_realloc(void *p, size_t n)
{
	void **q = malloc(n);
	size_t old = p ? __CPROVER_OBJECT_SIZE(p) / sizeof(void *) : 0, cnt = n / sizeof(void *), i;

	for (i = 0; i < old && i < cnt; i++)
		q[i] = ((void **)p)[i];
	free(p);
	return q;
}
#define realloc v_realloc
#endif
#include "confuse.c"
#include "libc_models.h"
#include "build.h"

int cfg_yylex(cfg_t *cfg) { (void)cfg; return -1; }
void cfg_yylex_destroy(void) { }
int cfg_lexer_include(cfg_t *cfg, const char *f) { (void)cfg; (void)f; return 0; }
void cfg_scan_fp_begin(FILE *fp) { (void)fp; }
void cfg_scan_fp_end(void) { }

int main(void)
{
	static cfg_opt_t sub[] = { CFG_INT("a", 7, CFGF_NONE), CFG_END() };
	cfg_opt_t *o = alloc_opts(8);
	cfg_t root;
	V_IN_LONG(vin_di);
	V_IN_BOOL(vin_db);
	V_IN_UCHAR(vin_ds);
	char ds[2];
	int k;

	ds[0] = (char)vin_ds;
	ds[1] = 0;
	init_opt(&o[0], "i", CFGT_INT, CFGF_NONE);
	o[0].def.number = vin_di;
	init_opt(&o[1], "s", CFGT_STR, CFGF_NONE);
	o[1].def.string = heap_str(ds);
	init_opt(&o[2], "b", CFGT_BOOL, CFGF_NONE);
	o[2].def.boolean = vin_db ? cfg_true : cfg_false;
	init_opt(&o[3], "f", CFGT_FLOAT, CFGF_NONE);
	o[3].def.fpnumber = 1.5;
	init_opt(&o[4], "n", CFGT_INT, CFGF_NODEFAULT);
	o[4].def.number = 9;
	init_opt(&o[5], "l", CFGT_INT, CFGF_LIST); /* list without a textual default */
	init_opt(&o[6], "c", CFGT_SEC, CFGF_NONE);
	o[6].subopts = sub;
	init_opt(&o[7], "m", CFGT_SEC, CFGF_MULTI);
	o[7].subopts = sub;
	init_cfg(&root, "root", o, CFGF_NONE);

	cfg_init_defaults(&root);

	V_ASSERT(cfg_opt_size(&o[0]) == 1 && cfg_opt_getnint(&o[0], 0) == vin_di, "[C01] an integer option starts with its declared default");
	V_ASSERT(cfg_opt_size(&o[1]) == 1 && cfg_opt_getnstr(&o[1], 0) != NULL && strcmp(cfg_opt_getnstr(&o[1], 0), ds) == 0 && cfg_opt_getnstr(&o[1], 0) != o[1].def.string,
		 "[C01] a string option starts with a copy of its declared default");
	V_ASSERT(cfg_opt_size(&o[2]) == 1 && (int)cfg_opt_getnbool(&o[2], 0) == (vin_db ? 1 : 0), "[C01] a boolean option starts with its declared default");
	V_ASSERT(cfg_opt_size(&o[3]) == 1 && cfg_opt_getnfloat(&o[3], 0) == 1.5, "[C01] a float option starts with its declared default");
	for (k = 0; k < 4; k++) {
		V_ASSERT((o[k].flags & CFGF_RESET) != 0 && (o[k].flags & CFGF_DEFINIT) != 0, "[C01] a defaulted option is marked as holding only its default");
		V_ASSERT((o[k].flags & CFGF_MODIFIED) == 0, "[C09] materialising defaults does not mark an option modified");
	}
	V_ASSERT(cfg_opt_size(&o[4]) == 0, "[C01] a no-default option starts without a value");
	V_ASSERT(cfg_opt_size(&o[5]) == 0, "[C01] a list without a declared default starts empty");
	V_ASSERT(cfg_opt_size(&o[6]) == 1 && cfg_opt_getnsec(&o[6], 0) != NULL, "[C01] a single section exists from the start");
	if (cfg_opt_size(&o[6]) == 1 && cfg_opt_getnsec(&o[6], 0) != NULL) {
		cfg_t *c = cfg_opt_getnsec(&o[6], 0);

		V_ASSERT(c->opts != NULL && c->opts != sub && c->opts[0].name != NULL && strcmp(c->opts[0].name, "a") == 0 && cfg_opt_size(&c->opts[0]) == 1 && cfg_opt_getnint(&c->opts[0], 0) == 7,
			 "[C01] the initial instance of a single section has the declared sub-options with their defaults");
	}
	V_ASSERT(cfg_opt_size(&o[7]) == 0, "[C01] a multi section starts without instances");
	V_ASSERT(n_err == 0, "[C06] initialising a schema without duplicate names delivers no diagnostic");
	V_WITNESS("end of harness");
	return 0;
}
