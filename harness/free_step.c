/* free_step.c - C07: the real recursive release (cfg_free, cfg_free_value, cfg_free_opt_array,
 * cfg_free_searchpath) on a bounded valid context; CBMC's leak check plus its double-free /
 * use-after-free checks decide "everything is released exactly once". */
#include <stdio.h>
#include <stdlib.h>
#include <string.h>
#include "confuse.h"
#include "verif.h"
#include "confuse.c"
#include "libc_models.h"
#include "build.h"

#ifndef NINST
#define NINST 1
#endif
static int n_freecb;
static void *freed[4];
static int cell_a, cell_b;
static void free_cb(void *p)
{
	if (n_freecb < 4)
		freed[n_freecb] = p;
	n_freecb++;
}
int cfg_yylex(cfg_t *cfg) { (void)cfg; return -1; }
static int n_destroy;
void cfg_yylex_destroy(void) { n_destroy++; }
int cfg_lexer_include(cfg_t *cfg, const char *f) { (void)cfg; (void)f; return 0; }
void cfg_scan_fp_begin(FILE *fp) { (void)fp; }
void cfg_scan_fp_end(void) { }

int main(void)
{
	cfg_t *root = malloc(sizeof(cfg_t));
	cfg_opt_t *o = alloc_opts(5);
	cfg_searchpath_t *sp1, *sp2;
	unsigned i;
	int rc;
	V_IN_BOOL(vin_reset);
	V_IN_BOOL(vin_has_comment);
	V_IN_BOOL(vin_has_path);
	V_IN_BOOL(vin_ptr_null);

	V_ASSUME(root != NULL);
	init_opt(&o[0], "l", CFGT_INT, CFGF_LIST | CFGF_DEFINIT | (vin_reset ? CFGF_RESET : 0));
	alloc_values(&o[0], 2);
	init_opt(&o[1], "s", CFGT_STR, CFGF_DEFINIT | (vin_reset ? CFGF_RESET : 0));
	alloc_values(&o[1], 1);
	o[1].values[0]->string = heap_str("v");
	o[1].def.string = heap_str("d");
	o[1].def.parsed = heap_str("p");
	if (vin_has_comment)
		o[1].comment = heap_str("c");
	init_opt(&o[2], "p", CFGT_PTR, CFGF_LIST);
	o[2].freecb = free_cb;
	alloc_values(&o[2], 2);
	o[2].values[0]->ptr = vin_ptr_null ? NULL : (void *)&cell_a;
	o[2].values[1]->ptr = &cell_b;
	init_opt(&o[3], "m", CFGT_SEC, CFGF_MULTI);
	alloc_values(&o[3], NINST);
	init_opt(&o[4], "g", CFGT_FUNC, CFGF_NONE);
	init_cfg(root, "root", o, CFGF_NONE);
	sp1 = sp2 = NULL;
	if (vin_has_path) {
		sp1 = malloc(sizeof(*sp1));
		sp2 = malloc(sizeof(*sp2));
		V_ASSUME(sp1 != NULL && sp2 != NULL);
		sp1->dir = heap_str("a");
		sp1->next = sp2;
		sp2->dir = heap_str("b");
		sp2->next = NULL;
		root->path = sp1;
	}
	for (i = 0; i < NINST; i++) {
		o[3].values[i]->section = mk_section2("m", NULL, CFGF_NONE);
		o[3].values[i]->section->path = root->path; /* sections only borrow the search path */
		o[3].values[i]->section->comment = NULL;
	}
	root->comment = vin_has_comment ? heap_str("r") : NULL;
	{
		/* a context that was created and never parsed into has no file name (its list defaults were still scanned) */
		V_IN_BOOL(vin_never_parsed);

		if (vin_never_parsed) {
			free(root->filename);
			root->filename = NULL;
		}
	}

	rc = cfg_free(root);
	V_ASSERT(rc == CFG_SUCCESS, "[C07] freeing a context succeeds");
	V_ASSERT(n_freecb == (vin_ptr_null ? 1 : 2), "[C07] every user-defined pointer value is handed to the release function exactly once");
	{
		/* each stored pointer exactly once, in whatever order */
		int na = 0, nb = 0, k;

		for (k = 0; k < n_freecb && k < 4; k++) {
			na += freed[k] == (void *)&cell_a;
			nb += freed[k] == (void *)&cell_b;
		}
		V_ASSERT(nb == 1 && na == (vin_ptr_null ? 0 : 1), "[C07] the release function receives each stored pointer exactly once");
	}
	V_ASSERT(n_destroy == 1, "[C07] freeing the root context tears the scanner down once, whether or not it was ever parsed into (initialisation scans list defaults)");
	/* CBMC: --memory-leak-check proves that nothing allocated above is still allocated here,
	 * the pointer checks prove that nothing was freed twice or used after its release */
	V_WITNESS("end of harness");
	return 0;
}
