/* parse_post.h - reference transition function of the configuration grammar and the
 * post-condition assertions of one parser step (included by parse_step.c).
 * Written from the property statements C01/C06/C12/C14/C15 and the manual. */

enum { X_CONT, X_EOF, X_ERR, X_SKIPRET, X_GREY };

struct pexp {
	int kind;      /* X_* */
	int state;     /* next state when X_CONT */
	int need_diag; /* 1: at least one diagnostic must have been delivered */
	int no_diag;   /* 1: no diagnostic may have been delivered */
};

static const char root_names[NROOT + 1] = "isbflmpcdtugxyk";

static int ref_tolower(int c) { return (c >= 'A' && c <= 'Z') ? c + 32 : c; }

static int ref_name_eq(const char *a, const char *b, int nocase)
{
	int i;

	for (i = 0; i <= NTOK; i++) {
		int ca = (unsigned char)a[i], cb = (unsigned char)b[i];

		if (nocase) {
			ca = ref_tolower(ca);
			cb = ref_tolower(cb);
		}
		if (ca != cb)
			return 0;
		if (!ca)
			return 1;
	}
	return 1;
}

/* index of the declared root option named S, or -1 */
static int ref_lookup(const char *s, int nocase)
{
	int i;
	char n[2];

	for (i = 0; i < NROOT; i++) {
		n[0] = root_names[i];
		n[1] = 0;
		if (ref_name_eq(s, n, nocase))
			return i;
	}
	return -1;
}

/* conversion classes used only to decide accept / reject of a value token (C04 decides values) */
enum { CV_ACCEPT, CV_REJECT, CV_GREY };
static int ref_conv_class(cfg_type_t type, const char *s, long *out)
{
	int i, alldec = 1, anyhex = 0;
	long v = 0;

	switch (type) {
	case CFGT_STR:
		return CV_ACCEPT;
	case CFGT_INT:
		for (i = 0; i < NTOK && s[i]; i++) {
			unsigned char c = (unsigned char)s[i];

			if (!(c >= '0' && c <= '9'))
				alldec = 0;
			else
				v = v * 10 + (c - '0');
			if ((c >= '0' && c <= '9') || (c >= 'a' && c <= 'f') || (c >= 'A' && c <= 'F'))
				anyhex = 1;
		}
		if (i == 0 || !anyhex)
			return CV_REJECT;
		if (alldec && (s[0] != '0' || s[1] == 0)) {
			*out = v;
			return CV_ACCEPT;
		}
		return CV_GREY;
	case CFGT_BOOL: {
		char l[3];

		for (i = 0; i < 2 && s[i]; i++)
			l[i] = (char)ref_tolower((unsigned char)s[i]);
		l[i] = 0;
		if (i == 2 && s[2] == 0 && l[0] == 'o' && l[1] == 'n') {
			*out = 1;
			return CV_ACCEPT;
		}
		if (i == 2 && s[2] == 0 && l[0] == 'n' && l[1] == 'o') {
			*out = 0;
			return CV_ACCEPT;
		}
		if (NTOK <= 2)
			return CV_REJECT; /* no other boolean word fits */
		return CV_GREY;
	}
	default:
		return CV_GREY; /* float (strtod contract), ptr (callback decides) */
	}
}

static int is_list(void) { return (O->flags & CFGF_LIST) != 0; }

static void ref_expect(cfg_t *ctx, struct pexp *x)
{
	int T = the_token;
	int nocase = (ctx->flags & CFGF_NOCASE) != 0;

	memset(x, 0, sizeof(*x));
	x->kind = X_GREY;
	if (T == 0) { /* lexical error: already reported by the scanner */
		x->kind = X_ERR;
		return;
	}
	if (T == -1) {
#ifdef FORCE_OPT
		if (PSTATE == 0) { /* the end of a default value string, scanned at level 1 */
			x->kind = X_EOF;
			x->no_diag = 1;
		} else
#endif
		if (PSTATE == 0 && pre_level == 0) {
			x->kind = X_EOF;
		} else if (PSTATE == 0) {
			/* the input ends between two items of a section body: its closing brace is missing */
			x->kind = X_ERR;
			x->need_diag = 1;
		} else {
			x->kind = X_ERR;
			x->need_diag = 1;
		}
		return;
	}
#if PSTATE >= 1 && PSTATE <= 9
	if (T == CFGT_COMMENT) { /* transparency of comments is C15's claim */
		x->kind = X_CONT;
		x->state = PSTATE;
		x->no_diag = 1;
		return;
	}
#endif
	x->kind = X_ERR;
	x->need_diag = 1;
	switch (PSTATE) {
	case 0:
		if (T == '}') {
			if (pre_level > 0) {
				x->kind = X_EOF;
				x->need_diag = 0;
			}
		} else if (T == CFGT_COMMENT) {
			x->kind = X_CONT;
			x->state = 0;
			x->need_diag = 0;
		} else if (T == CFGT_STR) {
#if KIND == K_SECKV
			/* free-form section: any name is a key */
			x->kind = X_CONT;
			x->state = 1;
			x->need_diag = 0;
			x->no_diag = 1;
#elif defined(PATHNAME)
			/* "c|X": the sub-options of section "c" are "a" and "z" */
			int hit = vin_tok[2] == 'a' || vin_tok[2] == 'z' || (nocase && (vin_tok[2] == 'A' || vin_tok[2] == 'Z'));

			x->need_diag = 0;
			if (hit) {
				x->kind = X_CONT;
				x->state = 1;
			} else if (ctx->flags & CFGF_IGNORE_UNKNOWN) {
				x->kind = X_CONT;
				x->state = 10;
			} else {
				x->kind = X_ERR;
				x->need_diag = 1;
			}
#else
			int idx = ref_lookup(vin_tok, nocase);

			x->need_diag = 0;
			if (idx >= 0) {
				cfg_opt_t *o = &root_opts[idx];

				x->kind = X_CONT;
				if (o->type == CFGT_SEC)
					x->state = (o->flags & CFGF_TITLE) ? 6 : 5;
				else if (o->type == CFGT_FUNC)
					x->state = 7;
				else
					x->state = 1;
			} else if (ctx->flags & CFGF_IGNORE_UNKNOWN) {
				x->kind = X_CONT;
				x->state = 10;
			} else {
				x->kind = X_ERR;
				x->need_diag = 1;
			}
#endif
		}
		break;
	case 1:
		if (T == '=') {
			x->kind = X_CONT;
			x->state = is_list() ? 3 : 2;
			x->need_diag = 0;
		} else if (T == '+' && is_list()) {
			x->kind = X_CONT;
			x->state = 3;
			x->need_diag = 0;
		}
		break;
	case 2:
		if (T == '}' && is_list()) {
			x->kind = X_CONT;
			x->state = 0;
			x->need_diag = 0;
		} else if (T == CFGT_STR) {
			x->kind = X_GREY; /* accept/reject decided with the conversion class below */
			x->need_diag = 0;
		}
		break;
	case 3:
		if (T == '{') {
			x->kind = X_CONT;
			x->state = 2;
			x->need_diag = 0;
		} else if (T == CFGT_STR) {
			x->kind = X_GREY;
			x->need_diag = 0;
		}
		break;
	case 4:
		if (T == ',') {
			x->kind = X_CONT;
			x->state = 2;
			x->need_diag = 0;
		} else if (T == '}') {
			x->kind = X_GREY; /* validation callback decides */
			x->need_diag = 0;
		}
		break;
	case 5:
		if (T == '{') {
			x->kind = X_GREY; /* section rules below */
			x->need_diag = 0;
		}
		break;
	case 6:
		if (T == CFGT_STR) {
			x->kind = X_CONT;
			x->state = 5;
			x->need_diag = 0;
		}
		break;
	case 7:
		if (T == '(') {
			x->kind = X_CONT;
			x->state = 8;
			x->need_diag = 0;
		}
		break;
	case 8:
		if (T == ')') {
			x->kind = X_GREY; /* callback verdict */
			x->need_diag = 0;
		} else if (T == CFGT_STR) {
			x->kind = X_CONT;
			x->state = 9;
			x->need_diag = 0;
		}
		break;
	case 9:
		if (T == ')') {
			x->kind = X_GREY;
			x->need_diag = 0;
		} else if (T == ',') {
			x->kind = X_CONT;
			x->state = 8;
			x->need_diag = 0;
		}
		break;
	default:
		x->kind = X_GREY;
		x->need_diag = 0;
		break;
	}
}

/* value i of O as an integer-like observable */
static long obs_num(unsigned i)
{
	if (O->type == CFGT_INT)
		return cfg_opt_getnint(O, i);
	if (O->type == CFGT_BOOL)
		return (long)cfg_opt_getnbool(O, i);
	return 0;
}

static void assert_store_unchanged(const char *why)
{
	unsigned i;

	(void)why;
	V_ASSERT(O->nvalues == pre_nvalues, "[C01] a step that stores nothing leaves the number of values unchanged");
	for (i = 0; i < NV && i < O->nvalues; i++) {
		if (O->type == CFGT_INT || O->type == CFGT_BOOL)
			V_ASSERT(obs_num(i) == pre_num[i], "[C01] a step that stores nothing leaves the values unchanged");
		if (O->type == CFGT_STR)
			V_ASSERT(cfg_opt_getnstr(O, i) != NULL && strcmp(cfg_opt_getnstr(O, i), pre_str[i]) == 0, "[C01] a step that stores nothing leaves the strings unchanged");
		if (O->type == CFGT_SEC)
			V_ASSERT(cfg_opt_getnsec(O, i) == pre_sec[i], "[C01] a step that stores nothing leaves the section instances unchanged");
	}
}

/* effect of storing the value token into O (states 2 and 3) */
static void check_value_store(cfg_t *ctx, int stored, struct pstate *ps)
{
	long want = 0;
	int cls = ref_conv_class(O->type, vin_tok, &want);
	unsigned expect_n, i;
	int was_reset = (pre_flags & CFGF_RESET) != 0;

	(void)ctx;
	(void)ps;
#ifdef WITH_PARSECB
	cls = CV_GREY;
#endif
#ifdef CHK_C01
	if (cls == CV_ACCEPT)
		V_ASSERT(stored
#ifdef WITH_VALIDCB
				 || cb_valid_rc != 0
#endif
			 , "[C01] a well-formed value token is accepted");
	if (cls == CV_REJECT)
		V_ASSERT(!stored, "[C01] a value token that cannot be converted is rejected");
#endif
#if defined(CHK_C07) && defined(WITH_PARSECB)
	if (!stored && O->type == CFGT_PTR && cb_parse_rc != 0 && !was_reset && pre_nvalues == 1) {
		V_ASSERT(n_freecb == 0, "[C07] a rejected replacement of a user-defined pointer value does not release the old value");
		V_ASSERT(O->nvalues == 1 && cfg_opt_getnptr(O, 0) == (void *)&ptr_cell_a, "[C07] a rejected replacement keeps the old pointer value stored");
	}
#endif
	if (!stored)
		return;
	if (is_list())
		expect_n = was_reset ? 1 : pre_nvalues + 1;
	else
		expect_n = 1;
#ifdef CHK_C01
	V_ASSERT(O->nvalues == expect_n, "[C01] '=' replaces and '+=' appends: number of values after storing a value");
	V_ASSERT((O->flags & CFGF_RESET) == 0, "[C01] once a value is stored the option no longer counts as holding only defaults");
	V_ASSERT((O->flags & CFGF_MODIFIED) != 0, "[C01] storing a value marks the option modified");
	if (O->nvalues == expect_n) {
		unsigned last = expect_n - 1;

		if (cls == CV_ACCEPT && (O->type == CFGT_INT || O->type == CFGT_BOOL))
			V_ASSERT(obs_num(last) == want, "[C01] the stored value is the one the token denotes");
		if (O->type == CFGT_STR
#ifdef WITH_PARSECB
		    && 0
#endif
		)
			V_ASSERT(cfg_opt_getnstr(O, last) != NULL && strcmp(cfg_opt_getnstr(O, last), vin_tok) == 0, "[C01] the stored string is the token text");
		if (is_list() && !was_reset)
			for (i = 0; i < NV && i < pre_nvalues; i++) {
				if (O->type == CFGT_INT)
					V_ASSERT(obs_num(i) == pre_num[i], "[C01] appending keeps the earlier list elements");
				if (O->type == CFGT_STR)
					V_ASSERT(cfg_opt_getnstr(O, i) != NULL && strcmp(cfg_opt_getnstr(O, i), pre_str[i]) == 0, "[C01] appending keeps the earlier list elements (strings)");
			}
	}
#endif
#ifdef CHK_C14
#ifdef WITH_PARSECB
	V_ASSERT(n_parsecb == 1, "[C14] the value-parsing callback runs exactly once per value");
	V_ASSERT(strcmp(cb_parse_arg, vin_tok) == 0, "[C14] the value-parsing callback receives exactly the token text");
	if (O->type == CFGT_PTR && O->nvalues >= 1)
		V_ASSERT(cfg_opt_getnptr(O, O->nvalues - 1) == (void *)&ptr_cell_new, "[C14] the stored value is the one the callback produced");
#endif
#ifdef WITH_VALIDCB
	V_ASSERT(n_validcb == 1, "[C14] the validation callback runs once after the value is stored");
	V_ASSERT(cb_valid_seen_nvalues == (int)expect_n, "[C14] the validation callback sees the stored value");
	V_ASSERT(cb_valid_lex_calls == 1, "[C14] validation happens before any later token is read");
#endif
#endif
#ifdef CHK_C07
	if (O->type == CFGT_PTR) {
		V_ASSERT(n_freecb == (int)pre_nvalues, "[C07] replacing a user-defined pointer value hands the old value to the release function exactly once");
		if (pre_nvalues == 1 && n_freecb == 1)
			V_ASSERT(freed_ptr[0] == (void *)&ptr_cell_a, "[C07] the release function receives the old pointer");
	}
#endif
#ifdef CHK_C15
	if (pre_pending != NULL && (PSTATE == 2 || PSTATE == 3)) { /* 3: a list assigned one value without braces */
		V_ASSERT(O->comment != NULL && strcmp(O->comment, pre_pending_txt) == 0, "[C15] the pending comment becomes the option's annotation");
		V_ASSERT(*ps->comment == NULL, "[C15] an attached annotation is consumed");
	}
#endif
}

static void check_section_step(cfg_t *ctx, int accepted)
{
	unsigned i;
	int dup = -1;

#if defined(CHK_C02) && LEVEL >= 100000
	V_ASSERT(n_lex_nested == 0, "[C02] nesting is bounded: at depth 100000 the parser does not recurse into yet another section (stack)");
#endif
	int nocase = (ctx->flags & CFGF_NOCASE) != 0;

	if (O->flags & CFGF_TITLE)
		for (i = 0; i < NV; i++)
			if (ref_name_eq(pre_opttitle, pre_title[i], nocase))
				dup = (int)i;
#ifdef CHK_C01
	if ((O->flags & CFGF_NO_TITLE_DUPES) && dup >= 0) {
		V_ASSERT(!accepted, "[C01] a repeated title is rejected when titles must be unique");
		if (!accepted) {
			V_ASSERT(n_err >= 1, "[C06] a rejected duplicate title is reported");
			assert_store_unchanged("dup title");
		}
		return;
	}
	V_ASSERT(accepted
#ifdef WITH_VALIDCB
			 || cb_valid_rc != 0
#endif
		 , "[C01] opening a declared section is accepted");
	if (!accepted)
		return;
	V_ASSERT(n_lex_nested == 1, "[C01] the section body is parsed by a nested invocation up to its closing brace");
	V_ASSERT(nested_names_file == 1, "[C06] inside a section the context handed to diagnostics names the file that is being read (also for an instance created earlier, by cfg_init() or while another file was read)");
	if (!(O->flags & CFGF_MULTI)) {
		V_ASSERT(O->nvalues == 1, "[C01] a single section has exactly one instance");
		if (NV == 1) {
			V_ASSERT(cfg_opt_getnsec(O, 0) == pre_sec[0], "[C01] a re-opened single section is merged into its existing instance");
			if (cfg_opt_getnsec(O, 0) == pre_sec[0] && O->subopts != kv_opts)
				V_ASSERT(pre_sec[0]->opts[0].nvalues == 1 && pre_sec[0]->opts[0].values[0]->number == pre_sec0_a && pre_sec[0]->opts[0].flags == pre_sec0_aflags,
					 "[C01] re-opening a single section keeps the values it already holds (merge, no re-initialisation)");
		}
	} else if (dup >= 0) {
		V_ASSERT(O->nvalues == pre_nvalues, "[C01] a repeated title replaces that section in place (count unchanged)");
		for (i = 0; i < NV && i < O->nvalues; i++) {
			cfg_t *s = cfg_opt_getnsec(O, i);

			V_ASSERT(s != NULL && s->title != NULL && ref_name_eq(s->title, pre_title[i], nocase), "[C01] a repeated title replaces that section in place (order kept)");
			if ((int)i != dup)
				V_ASSERT(s == pre_sec[i], "[C01] other instances are untouched when a title is repeated");
		}
	} else {
		V_ASSERT(O->nvalues == pre_nvalues + 1, "[C01] multi sections accumulate in file order");
		for (i = 0; i < NV && i < O->nvalues; i++)
			V_ASSERT(cfg_opt_getnsec(O, i) == pre_sec[i], "[C01] earlier instances keep their place");
	}
	if (O->nvalues >= 1 && ((O->flags & CFGF_MULTI) || NV == 0)) {
		unsigned at = dup >= 0 ? (unsigned)dup : O->nvalues - 1;
		cfg_t *s = cfg_opt_getnsec(O, at);

		V_ASSERT(s != NULL, "[C01] the new section instance exists");
		if (s != NULL)
			V_ASSERT(((s->flags & CFGF_KEYSTRVAL) != 0) == ((O->flags & CFGF_KEYSTRVAL) != 0), "[C01] a new section is a free-form key=value section exactly if it is declared as one (not because its parent is)");
		if (s != NULL) {
			cfg_opt_t *a = cfg_getopt_leaf(s, "a");
			cfg_opt_t *z = cfg_getopt_leaf(s, "z");

			V_ASSERT(a != NULL && z != NULL, "[C01] a new section instance has the declared sub-options");
			if (a != NULL && z != NULL) {
				V_ASSERT(cfg_opt_size(a) == 1 && cfg_opt_getnint(a, 0) == 7, "[C01] unmentioned options of a new instance keep their declared defaults (int)");
				V_ASSERT(cfg_opt_size(z) == 1 && cfg_opt_getnstr(z, 0) != NULL && strcmp(cfg_opt_getnstr(z, 0), "q") == 0,
					 "[C01] unmentioned options of a new instance keep their declared defaults (string)");
				V_ASSERT(a != &sub_opts[0] && a->name != sub_opts[0].name, "[C16] a section instance owns a private copy of the declarations");
#ifdef CHK_C16
				V_ASSERT(z->def.string != sub_opts[1].def.string && z->name != sub_opts[1].name && s->opts != sub_opts, "[C16] names and default strings of a new instance are copies, not the declarations");
				V_ASSERT(sub_opts[0].nvalues == 0 && sub_opts[0].values == NULL && sub_opts[1].values == NULL, "[C16] creating an instance never writes to the declarations");
				if (NV >= 1 && dup != 0 && pre_sec[0] != NULL && pre_sec[0] != s) {
					cfg_opt_t *pa = &pre_sec[0]->opts[0], *pz = &pre_sec[0]->opts[1];

					V_ASSERT(s->opts != pre_sec[0]->opts && a->name != pa->name && a->values != pa->values && a->values[0] != pa->values[0] &&
							 z->values[0]->string != pz->values[0]->string && z->def.string != pz->def.string && s->name != pre_sec[0]->name,
						 "[C16] sibling instances share no option array, name, default or value object");
					a->values[0]->number = 99; /* write through the new instance */
					z->values[0]->string[0] = 'X';
					V_ASSERT(pa->values[0]->number == pre_sec0_a && pz->values[0]->string[0] == 'q', "[C16] changing one instance is invisible in its sibling");
				}
#endif
			}
			if (O->flags & CFGF_TITLE)
				V_ASSERT(s->title != NULL && strcmp(s->title, pre_opttitle) == 0, "[C01] the new instance carries the given title");
			else
				V_ASSERT(s->title == NULL, "[C01] an untitled section has no title");
			V_ASSERT(s->line == ctx->line, "[C06] after a section the including context continues at the section's last line");
		}
	}
#endif
#if defined(CHK_C17) && defined(WITH_PATH)
	if (accepted && O->nvalues >= 1) {
		unsigned at2 = dup >= 0 ? (unsigned)dup : ((O->flags & CFGF_MULTI) ? O->nvalues - 1 : 0);
		cfg_t *s2 = cfg_opt_getnsec(O, at2);

		V_ASSERT(s2 != NULL && s2->path == the_path, "[C17] a section entered by the parser resolves names through the context's search path");
	}
#endif
#ifdef WITH_VALIDCB
#ifdef CHK_C14
	if (accepted || cb_valid_rc != 0)
		V_ASSERT(n_validcb == 1, "[C14] a section's validation callback runs once when the section closes");
#endif
#ifdef CHK_C06
	if (n_validcb == 1)
		V_ASSERT(cb_valid_line == pre_line + body_lines, "[C06] a section's validation callback sees the context positioned at the section's closing brace");
#endif
#endif
#ifdef CHK_C06
	if (accepted)
		V_ASSERT(ctx->line == pre_line + body_lines, "[C06] after a section the including context continues at the line where the section ended");
#endif
	(void)accepted;
}

static void check_call_step(int accepted)
{
#if defined(CHK_C07) && defined(TRACK_CALLOC)
	V_ASSERT(n_calloc == 1 && times_freed(last_calloc) == 1, "[C07] the temporary argument vector of a call is released exactly once, whatever the callback returns");
#endif
#ifdef CHK_C14
	int i;

	V_ASSERT(n_func == 1, "[C14] a function option's callback is invoked exactly once per call");
	V_ASSERT(func_argc == NARGS, "[C14] the callback receives all collected arguments");
	for (i = 0; i < NARGS && i < 3; i++)
		V_ASSERT(func_argv[i][0] == 'A' + i && func_argv[i][1] == 0, "[C14] the callback receives the decoded arguments in order");
	V_ASSERT(accepted == (cb_func_rc == 0), "[C14] a non-zero result of the function callback fails the parse at that point");
#endif
	(void)accepted;
}


/* ---- C12: the skipper for undeclared items, against a recogniser of well-formed items ----
 *   item  := NAME ( '=' value | '+=' value | '(' args ')' | [TITLE] '{' item* '}' )
 *   value := STR | '{' (STR (',' STR)*)? '}'
 * Reference control states are named after the real ones where they coincide:
 *   10 after the name, 11 after a title, 12 after the '{' of a section body, 13 inside a list / argument
 *   list (closed by `ignore`), 14 after '=' / '+=', 15 (nested only) between two items of a skipped body.
 * DONE at top level is state 0; DONE inside a skipped body is state 15.  The open braces of skipped
 * bodies are counted (skip_depth), not recursed into: '{ NAME' opens one more, the '}' that closes a
 * body takes one off and leads to 15 while any is left, else to 0. */
static void check_skipper(cfg_t *ctx, int act_kind, int act_state, struct pstate *ps)
{
	int T = the_token;
#ifdef FORCE10
	const int nested = 1;
#else
	const int nested = 0;
#endif
	const int done_state = nested ? 15 : 0;

	(void)ctx;
#if PSTATE >= 10
	V_ASSERT(n_lex_nested == 0, "[C02] skipping undeclared content never recurses (no stack growth with its nesting depth)");
#endif
#if defined(CHK_C15) && !defined(CHK_C12) && PSTATE >= 10
	if (T == CFGT_COMMENT) { /* comments are transparent inside an undeclared item as well */
		V_ASSERT(act_kind == X_CONT && act_state == PSTATE && *ps->ignore == pre_ignore, "[C15] a comment token inside an undeclared item is skipped");
		V_ASSERT(n_err == 0, "[C15] a comment inside an undeclared item produces no diagnostic");
		assert_store_unchanged("comment in skipper");
	}
#endif
#ifdef CHK_C12
#if PSTATE >= 10
	/* whatever happens, skipping touches no declared option */
	assert_store_unchanged("skipper");
	V_ASSERT(ps->funcopt->nvalues == 0 || act_kind != X_CONT, "[C12] skipping collects no call arguments");
	if (T == -1 || T == 0) {
		V_ASSERT(act_kind == X_ERR, "[C12] the input may not end inside an undeclared item");
		return;
	}
	if (T == CFGT_COMMENT) { /* comments are transparent inside an undeclared item as well (C15) */
		V_ASSERT(act_kind == X_CONT && act_state == PSTATE && *ps->ignore == pre_ignore, "[C15] a comment token inside an undeclared item is skipped");
		V_ASSERT(n_err == 0, "[C12] skipping an undeclared item produces no diagnostic");
		return;
	}
#if PSTATE == 10
	if (T == '=') {
		V_ASSERT(act_kind == X_CONT && act_state == 14, "[C12] after an undeclared name '=' introduces a value");
	} else if (T == '+') {
		V_ASSERT(act_kind == X_CONT && act_state == 14, "[C12] after an undeclared name '+=' introduces a value to append");
	} else if (T == '(') {
		V_ASSERT(act_kind == X_CONT && act_state == 13 && *ps->ignore == ')', "[C12] an undeclared call is skipped up to its closing parenthesis");
	} else if (T == '{') {
		V_ASSERT(act_kind == X_CONT && act_state == 12, "[C12] an undeclared section body is opened by '{'");
	} else if (T == CFGT_STR) {
		V_ASSERT(act_kind == X_CONT && act_state == 11, "[C12] an undeclared name followed by a string is a titled section");
	}
	if (act_kind == X_CONT)
		V_ASSERT(*ps->comment == NULL, "[C12] a pending annotation is dropped together with the undeclared item");
#elif PSTATE == 11
	if (T == '{')
		V_ASSERT(act_kind == X_CONT && act_state == 12, "[C12] a titled undeclared section body is opened by '{'");
	else
		V_ASSERT(act_kind == X_ERR && n_err >= 1, "[C12] after a title only '{' is well-formed");
#elif PSTATE == 12
	if (T == '}') {
		V_ASSERT(*ps->skip_depth == pre_skip, "[C12] an empty undeclared section opens and closes no skipped body");
		if (nested)
			V_ASSERT(act_kind == X_CONT && act_state == 15, "[C12] an empty undeclared section inside a skipped body is one complete item");
		else
			V_ASSERT(act_kind == X_CONT && act_state == 0 && *ps->ignore == 0, "[C12] an empty undeclared section is skipped as one complete item");
	} else if (T == CFGT_STR) {
		/* at ANY nesting level (the obligation's LEVEL may be the declared-section limit, the count any value) */
		V_ASSERT(act_kind == X_CONT && act_state == 10 && *ps->skip_depth == pre_skip + 1 && n_err == 0,
			 "[C12] the body of an undeclared section is entered by counting its brace, to any depth, the string being the name of its first item");
	} else {
		V_ASSERT(act_kind == X_ERR && n_err >= 1, "[C12] a skipped body starts with an item or ends at once");
	}
#elif PSTATE == 13
	if (T == pre_ignore && pre_ignore != '=') {
		if (nested)
			V_ASSERT(act_kind == X_CONT && act_state == 15, "[C12] the end of a list or call inside a skipped body completes one item, not the body");
		else
			V_ASSERT(act_kind == X_CONT && act_state == 0 && *ps->ignore == 0, "[C12] the closing token completes the undeclared item");
	} else if (T == CFGT_STR || T == ',') {
		V_ASSERT(act_kind == X_CONT && act_state == 13 && *ps->ignore == pre_ignore, "[C12] list elements and arguments of an undeclared item are skipped silently");
	}
#elif PSTATE == 14
	if (T == CFGT_STR) {
		V_ASSERT(act_kind == X_CONT && act_state == done_state, "[C12] a scalar value completes the undeclared assignment");
		if (act_kind == X_CONT)
			V_ASSERT(*ps->ignore == 0, "[C12] nothing is left to be ignored after a scalar value");
	} else if (T == '{') {
		V_ASSERT(act_kind == X_CONT && act_state == 13 && *ps->ignore == '}', "[C12] a list value is skipped up to its closing brace");
	} else {
		V_ASSERT(act_kind == X_ERR && n_err >= 1, "[C12] after '=' only a value or a list is well-formed");
	}
#elif PSTATE == 15
	if (T == CFGT_STR)
		V_ASSERT(act_kind == X_CONT && act_state == 10, "[C12] inside a skipped body a string starts the next undeclared item");
	else if (T == '}')
		V_ASSERT(act_kind == X_CONT && *ps->skip_depth == pre_skip - 1 && act_state == (pre_skip > 1 ? 15 : 0),
			 "[C12] the closing brace of a skipped body takes one off the count: more of the enclosing skipped body follows, or the skip is complete");
	else
		V_ASSERT(act_kind == X_ERR && n_err >= 1, "[C12] between two items of a skipped body only a name or the closing brace is well-formed");
#endif
#if PSTATE == 11 || PSTATE == 13 || PSTATE == 14
	if (act_kind == X_CONT)
		V_ASSERT(*ps->skip_depth == pre_skip, "[C12] only the braces of undeclared section bodies change the skip count");
#endif
	/* no diagnostic while skipping well-formed text */
	if (act_kind != X_ERR)
		V_ASSERT(n_err == 0, "[C12] skipping an undeclared item produces no diagnostic");
#else /* PSTATE == 0 with ignore-unknown */
	if (T == CFGT_STR && ref_lookup(vin_tok, (ctx->flags & CFGF_NOCASE) != 0) < 0) {
		V_ASSERT(act_kind == X_CONT && act_state == 10, "[C12] an undeclared name starts a skipped item");
		V_ASSERT(n_err == 0 || (pre_opt != NULL && (pre_opt->flags & CFGF_DEPRECATED)), "[C12] an undeclared name produces no diagnostic when unknown items are ignored");
		if (act_kind == X_CONT)
			V_ASSERT(*ps->opt == NULL, "[C12] an undeclared item is not attributed to the previous option");
	}
#endif
#endif
	(void)T;
	(void)act_kind;
	(void)act_state;
	(void)ps;
	(void)done_state;
}

/* ---- common outcome check; act_kind = X_CONT / X_EOF / X_ERR / X_SKIPRET ---- */
static void check_outcome(cfg_t *ctx, int act_kind, int act_state, struct pstate *ps)
{
	struct pexp x;
	int T = the_token;

	ref_expect(ctx, &x);
	V_ASSERT(n_yydestroy == 0, "[C02] the scanner is not torn down while a parse is in progress (whatever the schema's sections are called)");

#if PSTATE <= 9
#if defined(CHK_C15)
	if (T == CFGT_COMMENT && PSTATE >= 1) {
		V_ASSERT(act_kind == X_CONT && act_state == PSTATE, "[C15] a comment token between any two tokens is skipped (parser state unchanged)");
		if (act_kind == X_CONT)
			assert_store_unchanged("comment");
		V_WITNESS("post checked");
		return;
	}
	if (T == CFGT_COMMENT && PSTATE == 0) {
		V_ASSERT(act_kind == X_CONT && act_state == 0, "[C15] a comment token between two items is skipped");
		if (act_kind == X_CONT) {
			if (ctx->flags & CFGF_COMMENTS)
				V_ASSERT(*ps->comment != NULL && strcmp(*ps->comment, vin_tok) == 0, "[C15] with annotations on, a comment before an item becomes the pending annotation");
			else
				V_ASSERT(*ps->comment == NULL, "[C15] with annotations off a comment leaves no trace");
		}
	}
#else
	if (T == CFGT_COMMENT && PSTATE >= 1) {
		V_WITNESS("post checked");
		return; /* decided by C15 */
	}
#endif

	/* ---- accept / reject / next state ---- */
	if (x.kind != X_GREY) {
#ifdef CHK_C01
		V_ASSERT(act_kind == x.kind, "[C01] the token is accepted or rejected as the grammar defines");
		if (x.kind == X_CONT && act_kind == X_CONT)
			V_ASSERT(act_state == x.state, "[C01] the parser expects the right kind of token next");
#endif
	}
	/* ---- state specific effects ---- */
#if PSTATE == 0
#ifdef CHK_C01
	if (act_kind == X_CONT && T == CFGT_STR && x.kind == X_CONT) {
#if KIND == K_SECKV
		V_ASSERT(*ps->opt != NULL && (*ps->opt)->type == CFGT_STR && strcmp((*ps->opt)->name, vin_tok) == 0, "[C01] a free-form key creates a string option of that name");
		V_ASSERT(cfg_getopt_leaf(ctx, vin_tok) == *ps->opt, "[C01] the created key is part of the section");
#else
#ifdef PATHNAME
		if (x.state != 10) {
			/* "c|X": the option of that name inside the one instance of section "c" */
			cfg_t *csec = root_opts[7].values[0]->section;

			V_ASSERT(*ps->opt != NULL && *ps->opt == &csec->opts[(vin_tok[2] | 0x20) == 'a' ? 0 : 1], "[C01] a path key selects the option it addresses inside the section");
		}
#else
		if (x.state != 10) {
			int idx = ref_lookup(vin_tok, (ctx->flags & CFGF_NOCASE) != 0);

			V_ASSERT(*ps->opt == &root_opts[idx], "[C01] a name selects the declared option of that name");
		}
#endif
#endif
	}
#if KIND != K_SECKV
	if (pre_opt != O || !(O->flags & CFGF_DROP))
		assert_store_unchanged("state 0");
#if defined(PREV_IS_O) && (KIND == K_DEPR || KIND == K_DEPRDROP)
	/* the item that just ended assigned a deprecated option: whatever comes next (another item, a comment,
	 * the closing brace of the section, the end of the input) the option is reported, and dropped if flagged so */
#ifdef FORCE_OPT
	if (T == -1) {
		/* materialising the declared default of a deprecated option is not a use of it */
		V_ASSERT(n_err == 0, "[C01] the declared default of a deprecated option is set up silently");
		V_ASSERT(O->nvalues == pre_nvalues, "[C01] an unmentioned deprecated option keeps its declared default (drop applies to assignments in the text)");
	}
	if (0) /* what follows a default value string other than its end is a broken declaration: unspecified */
#else
	if (T != 0 && !(T == '}' && pre_level == 0) && !(T == -1 && pre_level > 0)) /* not where the text is rejected anyway */
#endif
	{
		V_ASSERT(n_err >= 1, "[C01] a deprecated option that was assigned is reported");
		if (O->flags & CFGF_DROP)
			V_ASSERT(O->nvalues == 0, "[C01] a deprecated option flagged 'drop' holds no value after the item that assigned it");
		else
			assert_store_unchanged("deprecated, kept");
	}
#endif
#endif
#endif
#elif PSTATE == 1
#ifdef CHK_C01
	assert_store_unchanged("state 1");
	if (act_kind == X_CONT) {
		if (T == '=')
			V_ASSERT((O->flags & CFGF_RESET) != 0, "[C01] '=' arms replacement of the old values");
		if (T == '+')
			V_ASSERT((O->flags & CFGF_RESET) == 0, "[C01] '+=' appends to whatever the option holds, defaults included");
		V_ASSERT((O->flags & CFGF_MODIFIED) != 0, "[C01] an assignment marks the option modified");
		if (is_list())
			V_ASSERT(*ps->num_values == 0, "[C01] a list assignment starts with no elements read");
	}
#endif
#elif PSTATE == 2 || PSTATE == 3
	if (T == CFGT_STR) {
		check_value_store(ctx, act_kind == X_CONT, ps);
#ifdef CHK_C01
		if (act_kind == X_CONT) {
			if (PSTATE == 2 && is_list()) {
				V_ASSERT(act_state == 4, "[C01] after a list element a separator or the closing brace is expected");
				V_ASSERT(*ps->num_values == pre_num_values + 1, "[C01] list elements are counted");
			} else {
				V_ASSERT(act_state == 0, "[C01] after a complete assignment the next item is expected");
			}
		}
#endif
#ifdef CHK_C06
		if (act_kind == X_ERR) {
			int cb_fail = 0;
#ifdef WITH_VALIDCB
			cb_fail = cb_valid_rc != 0;
#endif
#ifdef WITH_PARSECB
			cb_fail = cb_fail || cb_parse_rc != 0;
#endif
			if (!cb_fail && O->type != CFGT_PTR)
				V_ASSERT(n_err >= 1, "[C06] a rejected value is reported");
		}
#endif
	}
#if PSTATE == 2
#ifdef CHK_C01
	if (T == '}' && is_list() && act_kind == X_CONT) {
		if (pre_num_values == 0 && (pre_flags & CFGF_RESET))
			V_ASSERT(O->nvalues == 0, "[C01] assigning the empty list drops the old values");
		else
			assert_store_unchanged("closing brace");
	}
#endif
#endif
#elif PSTATE == 4
	if (T == '}') {
#ifdef CHK_C01
		assert_store_unchanged("list end");
#ifdef WITH_VALIDCB
		V_ASSERT((act_kind == X_CONT) == (cb_valid_rc == 0), "[C14] a list's validation callback verdict binds at the closing brace");
		V_ASSERT(n_validcb == 1, "[C14] a list's validation callback runs when the list closes");
#else
		V_ASSERT(act_kind == X_CONT && act_state == 0, "[C01] a closing brace ends the list");
#endif
#endif
	}
#elif PSTATE == 5
	if (T == '{')
		check_section_step(ctx, act_kind == X_CONT);
#ifdef CHK_C01
	if (T == '{' && act_kind == X_CONT) {
		V_ASSERT(act_state == 0, "[C01] after a section the next item is expected");
		V_ASSERT(*ps->opttitle == NULL, "[C01] the title is consumed by the section");
	}
#endif
#elif PSTATE == 6
#ifdef CHK_C01
	if (T == CFGT_STR && act_kind == X_CONT)
		V_ASSERT(*ps->opttitle != NULL && strcmp(*ps->opttitle, vin_tok) == 0, "[C01] the section title is the token text");
	assert_store_unchanged("state 6");
#endif
#elif PSTATE == 8 || PSTATE == 9
	if (T == ')')
		check_call_step(act_kind == X_CONT);
#ifdef CHK_C14
	if (T == CFGT_STR && PSTATE == 8 && act_kind == X_CONT) {
		V_ASSERT((int)ps->funcopt->nvalues == NARGS + 1, "[C14] each argument token is collected");
		V_ASSERT(strcmp(ps->funcopt->values[NARGS]->string, vin_tok) == 0, "[C14] a collected argument is exactly the decoded token text");
	}
	if (T == ')' && act_kind == X_CONT)
		V_ASSERT(ps->funcopt->nvalues == 0, "[C14] the argument vector is handed over and cleared by the call");
#endif
#endif
#endif /* PSTATE <= 9 */

#if PSTATE >= 10 || (PSTATE == 0 && (CTXF & CFGF_IGNORE_UNKNOWN))
	check_skipper(ctx, act_kind, act_state, ps);
#endif

	/* ---- diagnostics (C06) ---- */
#ifdef CHK_C06
	if (x.need_diag && act_kind == X_ERR) {
		V_ASSERT(n_err >= 1, "[C06] a rejected token is reported to the error function");
		V_ASSERT(n_err == 0 || err_cfg == ctx, "[C06] the diagnostic names the context (file and line) being scanned");
	}
	if (act_kind != X_ERR && !(pre_opt != NULL && (pre_opt->flags & CFGF_DEPRECATED)) && !(PSTATE == 0 && T == CFGT_STR && *ps->opt != NULL && ((*ps->opt)->flags & CFGF_DEPRECATED)))
		V_ASSERT(n_err == 0, "[C06] an accepted token produces no diagnostic");
#endif
	(void)T;
	V_WITNESS("post checked");
}

static void post_step(cfg_t *cfg, struct pstate *ps)
{
#if defined(CHK_C02) || defined(CHK_C07)
	unsigned i;

	V_ASSERT(*ps->comment == NULL || V_R_OK(*ps->comment, 1), "[C07] the pending annotation is either absent or a live string (never freed and kept)");
	if (pre_pending != NULL)
		V_ASSERT(times_freed(pre_pending) == (*ps->comment == pre_pending ? 0 : 1), "[C07] a pending annotation is released exactly once, and only when it is no longer held");
	if (held_title != NULL)
		V_ASSERT(times_freed(held_title) == (*ps->opttitle == held_title ? 0 : 1), "[C07] a pending title is released exactly once, and only when it is no longer held");
	V_ASSERT(*ps->opttitle == NULL || V_R_OK(*ps->opttitle, 1), "[C07] the pending title is either absent or a live string");
	for (i = 0; i < 3 && i < ps->funcopt->nvalues; i++)
		V_ASSERT(V_R_OK(ps->funcopt->values[i], sizeof(cfg_value_t)) && V_R_OK(ps->funcopt->values[i]->string, 1), "[C07] collected call arguments are live");
#ifdef WITH_PATH
	V_ASSERT(root.path == the_path && V_R_OK(the_path, sizeof(*the_path)) && V_R_OK(the_path->dir, 2), "[C07] the root's search path survives (sections only borrow it)");
	if (older_path != NULL)
		V_ASSERT(the_path->next == older_path && V_R_OK(older_path, sizeof(*older_path)) && V_R_OK(older_path->dir, 2), "[C07] every node of the root's search path survives, also one an older section still points to");
#endif
	if (*ps->opt != NULL && PSTATE <= 9) {
		V_ASSERT((*ps->opt)->nvalues == 0 || V_R_OK((*ps->opt)->values, (*ps->opt)->nvalues * sizeof(cfg_value_t *)), "[C07] the value vector of the active option is live");
		V_ASSERT((*ps->opt)->comment == NULL || V_R_OK((*ps->opt)->comment, 1), "[C07] the annotation of the active option is live");
	}
#endif
	check_outcome(cfg, X_CONT, *ps->state, ps);
}

static struct pstate dummy_ps;
static void post_return(cfg_t *ctx, int rc)
{
	static int st, nv, ig;
	static cfg_opt_t *op;
	static char *cm, *ot;
	static cfg_opt_t fo;

	dummy_ps.state = &st;
	dummy_ps.opt = &op;
	dummy_ps.ignore = &ig;
	dummy_ps.num_values = &nv;
	dummy_ps.comment = &cm;
	dummy_ps.opttitle = &ot;
	dummy_ps.funcopt = &fo;
	V_ASSERT(rc == STATE_EOF || rc == STATE_ERROR || rc == STATE_CONTINUE, "[C02] the parser returns one of its three verdicts");
#ifdef CHK_C07
	/* whatever the invocation held temporarily has been released exactly once when it returns */
	if (pre_pending != NULL)
		V_ASSERT(times_freed(pre_pending) == 1, "[C07] a pending annotation is released exactly once when the invocation returns");
	if (held_title != NULL)
		V_ASSERT(times_freed(held_title) == 1, "[C07] a pending section title is released exactly once when the invocation returns");
	{
		int k;

		for (k = 0; k < NARGS; k++) {
			V_ASSERT(times_freed(held_arg_cell[k]) == 1, "[C07] collected call arguments are released exactly once when the call is aborted or made (cells)");
			V_ASSERT(times_freed(held_arg_str[k]) == 1, "[C07] collected call arguments are released exactly once when the call is aborted or made (strings)");
		}
	}
#endif
	check_outcome(ctx, rc == STATE_EOF ? X_EOF : rc == STATE_ERROR ? X_ERR : X_SKIPRET, -1, &dummy_ps);
}
