/* get_step.c - the OBSERVATION LAYER: every public reader applied to an arbitrary valid option state returns
 * exactly what the state holds, and the by-name variants agree with the by-option variants.
 *
 * C01 and C09 state their claims "as read back through the getters" / "as observed through size, indexed
 * getters, titles"; the step obligations of parse_step.c / api_step.c look at the stored vectors and use the
 * by-option getters at a few concrete positions only.  This harness closes the gap: for a symbolic index
 * (all 2^32 values) and symbolic stored values every getter is compared with the stored state.
 *
 * Code under test (verbatim /repo/src/confuse.c): cfg_opt_size, cfg_size, cfg_opt_getnint/-float/-bool/-str/
 * -ptr/-sec, cfg_getnint/-float/-bool/-str/-ptr/-sec, cfg_getint/-float/-bool/-str/-ptr, cfg_opt_getstr,
 * cfg_title, cfg_name, cfg_opt_name, cfg_opt_gettsec, cfg_gettsec, cfg_getsec, cfg_opt_getcomment,
 * cfg_getcomment, cfg_num, cfg_numopts, cfg_getnopt, cfg_getopt (leaf names).
 *
 * Concrete: -DKIND (option kind), -DNV (values held 0..3), -DSIMPLE (the option is a "simple" one whose value
 * lives in the application's variable).  Symbolic: stored values, index, flags, the neighbour's value.
 */
#include <stdio.h>
#include <stdlib.h>
#include <string.h>
#include "confuse.h"
#include "verif.h"
#include "confuse.c"
#define VM_STRTOD_CONTRACT
#include "libc_models.h"
#include "build.h"

#define KI_INT 1
#define KI_INTLIST 2
#define KI_STR 3
#define KI_STRLIST 4
#define KI_BOOL 5
#define KI_FLOATLIST 6
#define KI_SECT 7 /* MULTI | TITLE, titles "A","B","C" */
#define KI_SECM 8 /* MULTI */
#define KI_SEC 9  /* single */
#define KI_PTRLIST 10
#define KI_BOOLLIST 11
#define KI_FLOAT 12

#ifndef NV
#define NV 1
#endif
#ifndef SIMPLE
#define SIMPLE 0
#endif
#ifndef CTXF
#define CTXF 0
#endif

#ifdef CHK_C01
#define TAG "[C01] "
#else
#define TAG "[C09] "
#endif
#define GA(c, m) V_ASSERT(c, TAG m)

static cfg_t root;
static cfg_opt_t *O, *P;
static long pre_num[3];
static double pre_fp[3];
static char *pre_strptr[3];
static void *pre_ptr[3];
static cfg_t *pre_sec[3];
static int cells[4];

static long simple_num;
static double simple_fp;
static cfg_bool_t simple_bool;
static char *simple_str;
static void *simple_ptr;

int main(void)
{
	cfg_opt_t *opts = alloc_opts(2);
	cfg_type_t type = CFGT_INT;
	cfg_flag_t fl = 0;
	unsigned i;
	V_IN_UINT(vin_idx);
	V_IN_LONG(vin_pval);

	switch (KIND) {
	case KI_INT: type = CFGT_INT; break;
	case KI_INTLIST: type = CFGT_INT; fl = CFGF_LIST; break;
	case KI_STR: type = CFGT_STR; break;
	case KI_STRLIST: type = CFGT_STR; fl = CFGF_LIST; break;
	case KI_BOOL: type = CFGT_BOOL; break;
	case KI_BOOLLIST: type = CFGT_BOOL; fl = CFGF_LIST; break;
	case KI_FLOAT: type = CFGT_FLOAT; break;
	case KI_FLOATLIST: type = CFGT_FLOAT; fl = CFGF_LIST; break;
	case KI_PTRLIST: type = CFGT_PTR; fl = CFGF_LIST; break;
	case KI_SECT: type = CFGT_SEC; fl = CFGF_MULTI | CFGF_TITLE; break;
	case KI_SECM: type = CFGT_SEC; fl = CFGF_MULTI; break;
	case KI_SEC: type = CFGT_SEC; break;
	}
	/* the option under observation sits SECOND so that a by-name reader that stops at the first option, or
	 * indexes the option array wrongly, is noticed */
	init_opt(&opts[0], "p", CFGT_INT, CFGF_DEFINIT);
	P = &opts[0];
	alloc_values(P, 1);
	P->values[0]->number = vin_pval;
	init_opt(&opts[1], "o", type, fl);
	O = &opts[1];
	init_cfg(&root, "root", opts, CTXF);
	alloc_values(O, NV);
	for (i = 0; i < NV; i++) {
		if (type == CFGT_INT) {
			V_IN_LONG(vin_val);
			O->values[i]->number = vin_val;
			pre_num[i] = vin_val;
		} else if (type == CFGT_BOOL) {
			V_IN_BOOL(vin_bval);
			O->values[i]->boolean = vin_bval ? cfg_true : cfg_false;
			pre_num[i] = vin_bval;
		} else if (type == CFGT_FLOAT) {
			V_IN_INT(vin_fval);
			O->values[i]->fpnumber = (double)vin_fval / 4;
			pre_fp[i] = (double)vin_fval / 4;
		} else if (type == CFGT_STR) {
			V_IN_UCHAR(vin_sval);
			char t[2] = { (char)vin_sval, 0 }; /* the empty string is a value too */
			V_IN_BOOL(vin_snull);

			O->values[i]->string = vin_snull ? NULL : heap_str(t);
			pre_strptr[i] = O->values[i]->string;
		} else if (type == CFGT_PTR) {
			O->values[i]->ptr = &cells[i];
			pre_ptr[i] = &cells[i];
		} else if (type == CFGT_SEC) {
			char t[2] = { (char)('A' + i), 0 };

			O->values[i]->section = mk_section2("o", (fl & CFGF_TITLE) ? t : NULL, CTXF);
			pre_sec[i] = O->values[i]->section;
		}
	}
	{
		V_IN_BOOL(vin_reset);
		V_IN_BOOL(vin_modified);
		V_IN_BOOL(vin_has_comment);

		O->flags |= CFGF_DEFINIT;
		if (vin_reset && type != CFGT_SEC)
			O->flags |= CFGF_RESET;
		if (vin_modified)
			O->flags |= CFGF_MODIFIED;
		if (vin_has_comment)
			O->comment = heap_str("c");
	}
#if SIMPLE
	/* a "simple" option: no value cells, the value lives in the caller's variable */
	{
		V_IN_LONG(vin_simple);

		simple_num = vin_simple;
		simple_fp = (double)(vin_simple & 0xffff) / 8;
		simple_bool = (vin_simple & 1) ? cfg_true : cfg_false;
		simple_str = (vin_simple & 2) ? heap_str("s") : NULL;
		simple_ptr = &cells[3];
		if (type == CFGT_INT)
			O->simple_value.number = &simple_num;
		else if (type == CFGT_FLOAT)
			O->simple_value.number = (long *)&simple_fp; /* through the union's first member: CBMC turns a write to a later member into a byte update that loses the pointer */
		else if (type == CFGT_BOOL)
			O->simple_value.number = (long *)&simple_bool;
		else if (type == CFGT_STR)
			O->simple_value.number = (long *)&simple_str;
		else if (type == CFGT_PTR)
			O->simple_value.number = (long *)&simple_ptr;
	}
#endif

	/* ---- sizes and names ---- */
	GA(cfg_opt_size(O) == NV, "the size reader returns the number of values held");
	GA(cfg_size(&root, "o") == NV, "the by-name size reader agrees with the by-option one");
	GA(cfg_size(&root, "p") == 1, "the by-name size reader addresses the named option, not a neighbour");
	GA(cfg_size(&root, "x") == 0 && cfg_opt_size(NULL) == 0, "the size of an unknown option is 0");
	GA(cfg_getopt(&root, "o") == O && cfg_getopt(&root, "p") == P && cfg_getopt(&root, "x") == NULL, "the by-name lookup returns the named option");
	GA(cfg_num(&root) == 2 && cfg_numopts(root.opts) == 2, "the option count is the number of declared options");
	GA(cfg_getnopt(&root, 0) == P && cfg_getnopt(&root, 1) == O && cfg_getnopt(&root, 2) == NULL, "the positional option reader walks the options in declaration order");
	if (vin_idx >= 2)
		GA(cfg_getnopt(&root, vin_idx) == NULL, "the positional option reader returns nothing beyond the last option");
	GA(cfg_opt_name(O) == O->name && cfg_opt_name(NULL) == NULL && cfg_name(&root) == root.name && cfg_name(NULL) == NULL, "the name readers return the stored names");
	GA(cfg_opt_getcomment(O) == O->comment && cfg_getcomment(&root, "o") == O->comment && cfg_getcomment(&root, "p") == NULL && cfg_getcomment(&root, "x") == NULL,
	   "the annotation readers return the option's own annotation");
	GA(cfg_getnint(&root, "p", 0) == vin_pval && cfg_getint(&root, "p") == vin_pval, "the by-name integer reader addresses the named option, not a neighbour");

	/* ---- typed indexed readers ---- */
	if (type == CFGT_INT) {
		long want = vin_idx < NV ? pre_num[vin_idx] : (SIMPLE ? simple_num : 0);
		long want0 = NV > 0 ? pre_num[0] : (SIMPLE ? simple_num : 0);

		GA(cfg_opt_getnint(O, vin_idx) == want, "the indexed integer reader returns the value at that position (0 beyond the end)");
		GA(cfg_getnint(&root, "o", vin_idx) == want, "the by-name indexed integer reader agrees with the by-option one");
		GA(cfg_getint(&root, "o") == want0, "the scalar integer reader returns the first value");
		if (vin_idx < NV)
			V_WITNESS("in range");
		else
			V_WITNESS("out of range");
	} else if (type == CFGT_BOOL) {
		long want = vin_idx < NV ? pre_num[vin_idx] : (SIMPLE ? (long)simple_bool : 0);
		long want0 = NV > 0 ? pre_num[0] : (SIMPLE ? (long)simple_bool : 0);

		GA((long)cfg_opt_getnbool(O, vin_idx) == want, "the indexed boolean reader returns the value at that position (false beyond the end)");
		GA((long)cfg_getnbool(&root, "o", vin_idx) == want, "the by-name indexed boolean reader agrees with the by-option one");
		GA((long)cfg_getbool(&root, "o") == want0, "the scalar boolean reader returns the first value");
	} else if (type == CFGT_FLOAT) {
		double want = vin_idx < NV ? pre_fp[vin_idx] : (SIMPLE ? simple_fp : 0);
		double want0 = NV > 0 ? pre_fp[0] : (SIMPLE ? simple_fp : 0);

		GA(cfg_opt_getnfloat(O, vin_idx) == want, "the indexed float reader returns the value at that position (0 beyond the end)");
		GA(cfg_getnfloat(&root, "o", vin_idx) == want, "the by-name indexed float reader agrees with the by-option one");
		GA(cfg_getfloat(&root, "o") == want0, "the scalar float reader returns the first value");
	} else if (type == CFGT_STR) {
		char *want = vin_idx < NV ? pre_strptr[vin_idx] : (SIMPLE ? simple_str : NULL);
		char *want0 = NV > 0 ? pre_strptr[0] : (SIMPLE ? simple_str : NULL);

		GA(cfg_opt_getnstr(O, vin_idx) == want, "the indexed string reader returns the string at that position (none beyond the end)");
		GA(cfg_getnstr(&root, "o", vin_idx) == want, "the by-name indexed string reader agrees with the by-option one");
		GA(cfg_getstr(&root, "o") == want0 && cfg_opt_getstr(O) == want0, "the scalar string readers return the first value");
	} else if (type == CFGT_PTR) {
		void *want = vin_idx < NV ? pre_ptr[vin_idx] : (SIMPLE ? simple_ptr : NULL);
		void *want0 = NV > 0 ? pre_ptr[0] : (SIMPLE ? simple_ptr : NULL);

		GA(cfg_opt_getnptr(O, vin_idx) == want, "the indexed pointer reader returns the pointer at that position (none beyond the end)");
		GA(cfg_getnptr(&root, "o", vin_idx) == want, "the by-name indexed pointer reader agrees with the by-option one");
		GA(cfg_getptr(&root, "o") == want0, "the scalar pointer reader returns the first value");
	} else { /* sections */
		cfg_t *want = vin_idx < NV ? pre_sec[vin_idx] : NULL;
		V_IN_UCHAR(vin_t);
		char t[2] = { (char)vin_t, 0 };
		cfg_t *tw = NULL;

		GA(cfg_opt_getnsec(O, vin_idx) == want, "the indexed section reader returns the instance at that position (none beyond the end)");
		GA(cfg_getnsec(&root, "o", vin_idx) == want, "the by-name indexed section reader agrees with the by-option one");
		GA(cfg_getsec(&root, "o") == (NV > 0 ? pre_sec[0] : NULL), "the plain section reader returns the first instance");
		for (i = 0; i < NV; i++) {
			GA(cfg_title(pre_sec[i]) == pre_sec[i]->title, "the title reader returns the instance's title");
			GA(cfg_name(pre_sec[i]) == pre_sec[i]->name, "the name reader returns the section's name");
			if ((fl & CFGF_TITLE) && tw == NULL && vin_t == 'A' + i)
				tw = pre_sec[i];
		}
		GA(cfg_title(NULL) == NULL, "no context, no title");
		/* by-title readers: the instance whose title is exactly the text (titles are "A","B","C") */
		if (fl & CFGF_TITLE) {
			GA(cfg_opt_gettsec(O, t) == tw, "the by-title reader returns the instance carrying exactly that title (none for an unknown title)");
			GA(cfg_gettsec(&root, "o", t) == tw, "the by-name by-title reader agrees with the by-option one");
			if (tw)
				V_WITNESS("title found");
			else
				V_WITNESS("title unknown");
		} else {
			GA(cfg_opt_gettsec(O, t) == NULL && cfg_gettsec(&root, "o", t) == NULL, "a by-title reader on an untitled section option finds nothing");
		}
		GA(cfg_gettsec(&root, "p", t) == NULL && cfg_getnsec(&root, "p", 0) == NULL && cfg_getsec(&root, "p") == NULL, "a section reader on a non-section option finds nothing");
	}

	/* ---- readers of the wrong type yield the neutral value, whatever the option holds ---- */
	if (type != CFGT_INT)
		GA(cfg_opt_getnint(O, vin_idx) == 0 && cfg_getnint(&root, "o", vin_idx) == 0, "an integer reader on another type yields 0");
	if (type != CFGT_BOOL)
		GA(cfg_opt_getnbool(O, vin_idx) == cfg_false && cfg_getnbool(&root, "o", vin_idx) == cfg_false, "a boolean reader on another type yields false");
	if (type != CFGT_FLOAT)
		GA(cfg_opt_getnfloat(O, vin_idx) == 0 && cfg_getnfloat(&root, "o", vin_idx) == 0, "a float reader on another type yields 0");
	if (type != CFGT_STR)
		GA(cfg_opt_getnstr(O, vin_idx) == NULL && cfg_getnstr(&root, "o", vin_idx) == NULL, "a string reader on another type yields nothing");
	if (type != CFGT_PTR)
		GA(cfg_opt_getnptr(O, vin_idx) == NULL && cfg_getnptr(&root, "o", vin_idx) == NULL, "a pointer reader on another type yields nothing");
	if (type != CFGT_SEC)
		GA(cfg_opt_getnsec(O, vin_idx) == NULL && cfg_getnsec(&root, "o", vin_idx) == NULL && cfg_getsec(&root, "o") == NULL, "a section reader on another type yields nothing");
	/* readers of an unknown name */
	GA(cfg_getnint(&root, "x", vin_idx) == 0 && cfg_getnstr(&root, "x", vin_idx) == NULL && cfg_getnsec(&root, "x", vin_idx) == NULL && cfg_getnbool(&root, "x", vin_idx) == cfg_false &&
		   cfg_getnptr(&root, "x", vin_idx) == NULL && cfg_getnfloat(&root, "x", vin_idx) == 0,
	   "a reader of an unknown name yields the neutral value");

	/* ---- reading changes nothing ---- */
	GA(O->nvalues == NV && P->nvalues == 1 && P->values[0]->number == vin_pval, "reading leaves the options as they are");
	for (i = 0; i < NV; i++) {
		if (type == CFGT_INT)
			GA(O->values[i]->number == pre_num[i], "reading leaves the values as they are");
		if (type == CFGT_STR)
			GA(O->values[i]->string == pre_strptr[i], "reading leaves the strings as they are");
		if (type == CFGT_SEC)
			GA(O->values[i]->section == pre_sec[i], "reading leaves the sections as they are");
	}
	V_WITNESS("end of harness");
	return 0;
}
