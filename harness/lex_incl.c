/* lex_incl.c - C13 / C08 / C07 (include handling and scanner state between parses) on the flattened
 * scanner: the real cfg_lexer_include(), the real <<EOF>> rule actions, cfg_scan_fp_begin/_end.
 *
 * MODE 1 PUSH : cfg_lexer_include() at include depth DEPTH (concrete), with or without a search path,
 *               symbolic resolution result and symbolic fopen() verdict
 * MODE 2 POP  : one cfg_yylex() call at the end of an included source (start condition SC concrete),
 *               top include slot belongs to the current source (OWN=1) or not (OWN=0)
 * MODE 3 REST : cfg_scan_fp_end(); cfg_scan_fp_begin() - what cfg_parse_fp() does between two parses -
 *               from a scanner state in which the previous parse may have stopped (SC, scratch, DEPTH)
 */
#ifndef DEPTH
#define DEPTH 0
#endif
#ifndef SC
#define SC 0
#endif
#ifndef OWN
#define OWN 1
#endif
#define W 2
#define ENVW 1

#include "verif.h"
#include <stdio.h>
#include <stdlib.h>
#include <string.h>
#include <stdarg.h>
#include "confuse.h"

/* layout of the (opaque) search path list as confuse.c defines it; only its address is used here */
struct cfg_searchpath_t { char *dir; cfg_searchpath_t *next; };

char *cfg_yylval;
static int n_err, n_echo, n_close, n_open, n_free_name;
static cfg_t *err_cfg;
static FILE *closed_fp;

void cfg_error(cfg_t *cfg, const char *fmt, ...)
{
	(void)fmt;
	n_err++;
	err_cfg = cfg;
}

/* resolution stubs: result symbolic (NULL or a fresh heap string), arguments recorded */
static int res_fail;
static int n_searchpath, n_tilde;
static cfg_searchpath_t *sp_asked;
static char *resolved;
static char *mk_resolved(void)
{
	char *r = malloc(2);

	V_ASSUME(r != NULL);
	r[0] = 'p';
	r[1] = 0;
	resolved = r;
	return r;
}
char *cfg_searchpath(cfg_searchpath_t *p, const char *file)
{
	(void)file;
	n_searchpath++;
	sp_asked = p;
	return res_fail ? NULL : mk_resolved();
}
char *cfg_tilde_expand(const char *filename)
{
	(void)filename;
	n_tilde++;
	return res_fail ? NULL : mk_resolved();
}

static char *v_getenv(const char *name)
{
	(void)name;
	return NULL;
}
#define getenv v_getenv

static FILE fake_fp[4];
static FILE inc_fp[3];
static int open_fail;
static FILE *v_fopen(const char *path, const char *mode)
{
	(void)path;
	(void)mode;
	n_open++;
	return open_fail ? NULL : &fake_fp[3];
}
static int v_fclose(FILE *fp)
{
	closed_fp = fp;
	n_close++;
	return 0;
}
#define fopen v_fopen
#define fclose v_fclose
#ifdef __CPROVER__
static int v_sscanf(const char *s, const char *fmt, unsigned int *out)
{
	(void)s;
	(void)fmt;
	*out = 0;
	return 1;
}
#define sscanf v_sscanf
#endif
#define ECHO do { n_echo++; } while (0)

static char src_parent[4] = "x";   /* the including source: one word */
static char src_child[W + 1];	   /* the included source: at its end */
static char src_new[2] = "";	   /* source of the file being included / of the next parse */
char *flat_text_for(FILE *fp)
{
	if (fp == &fake_fp[0])
		return src_parent;
	if (fp == &fake_fp[1])
		return src_child;
	return src_new;
}

#include "lexer_flat.c"
#include "lexer_globals.h" /* generated next to lexer_flat.c */
#include "libc_models.h"

static cfg_t cfg;
static char *name_parent, *name_child;

/* put the scanner into include depth d: slots 0..d-1 hold open files and saved names */
static void set_depth(int d)
{
	int i;

	for (i = 0; i < d && i < MAX_INCLUDE_DEPTH; i++) {
		cfg_include_stack[i].fp = &fake_fp[2];
		cfg_include_stack[i].filename = NULL;
		cfg_include_stack[i].line = 1;
	}
	cfg_include_stack_ptr = d;
}

int main(void)
{
	memset(&cfg, 0, sizeof(cfg));
	cfg.name = "root";
	name_parent = malloc(2);
	V_ASSUME(name_parent != NULL);
	name_parent[0] = 'f';
	name_parent[1] = 0;

#if MODE == 1
	{
		int rc, line0;
		cfg_searchpath_t sp;
		V_IN_BOOL(vin_res_fail);
		V_IN_BOOL(vin_open_fail);
		V_IN_INT(vin_line);

		V_ASSUME(vin_line >= 1 && vin_line < 100000);
		res_fail = vin_res_fail;
		open_fail = vin_open_fail;
		cfg.filename = name_parent;
		cfg.line = line0 = vin_line;
#ifdef WITH_PATH
		sp.dir = "d";
		sp.next = NULL;
		cfg.path = &sp;
#else
		(void)sp;
#endif
		cfg_scan_fp_begin(&fake_fp[0]);
		set_depth(DEPTH);
		rc = cfg_lexer_include(&cfg, "inc");
		if (DEPTH >= MAX_INCLUDE_DEPTH) {
			V_ASSERT(rc != CFG_SUCCESS && n_err >= 1, "[C13] nesting beyond the limit is a reported parse error");
			V_ASSERT(n_open == 0 && n_searchpath == 0 && n_tilde == 0, "[C13] beyond the limit nothing is resolved or opened");
			V_WITNESS("limit");
		} else if (res_fail || open_fail) {
			V_ASSERT(rc != CFG_SUCCESS && n_err >= 1 && err_cfg == &cfg, "[C13] a missing or unreadable include target is a reported parse error");
			V_WITNESS("failure");
		} else {
			V_ASSERT(rc == CFG_SUCCESS && n_err == 0, "[C13] an existing include target is accepted silently");
			V_ASSERT(cfg_include_stack_ptr == DEPTH + 1, "[C13] a successful include uses exactly one include slot");
			V_ASSERT(cfg_include_stack[DEPTH].fp == &fake_fp[3] && cfg_include_stack[DEPTH].filename == name_parent && cfg_include_stack[DEPTH].line == (unsigned)line0,
				 "[C13] the including file's handle, name and line are saved");
			V_ASSERT(cfg.filename == resolved && cfg.line == 1, "[C13] scanning continues in the included file, line 1, under its resolved name");
			V_ASSERT(flat_sp == 2 && cfg_yyin == &fake_fp[3] && YY_START == INITIAL, "[C13] the included file becomes the current source");
			V_WITNESS("success");
		}
		if (rc != CFG_SUCCESS) {
			V_ASSERT(cfg_include_stack_ptr == DEPTH, "[C13] a failed include leaves the include depth unchanged (no lasting loss of include capacity)");
			V_ASSERT(cfg.filename == name_parent && cfg.line == line0, "[C13] a failed include leaves file name and line of the including source unchanged");
			V_ASSERT(flat_sp == 1 && cfg_yyin == &fake_fp[0], "[C13] a failed include leaves the current source unchanged");
			V_ASSERT(n_open == n_close || (n_open == 1 && open_fail), "[C07] a failed include leaves no file open");
		}
#ifdef WITH_PATH
		if (DEPTH < MAX_INCLUDE_DEPTH)
			V_ASSERT(n_searchpath == 1 && n_tilde == 0 && sp_asked == &sp, "[C17] with a search path the include target is resolved through it");
#else
		if (DEPTH < MAX_INCLUDE_DEPTH)
			V_ASSERT(n_searchpath == 0 && n_tilde == 1, "[C17] without a search path the include target is tilde-expanded");
#endif
	}
#elif MODE == 2
	{
		int tok, i;
		V_IN_INT(vin_line);
		V_IN_INT(vin_saved_line);

		V_ASSUME(vin_line >= 1 && vin_line < 100000 && vin_saved_line >= 1 && vin_saved_line < 100000);
		name_child = malloc(2);
		V_ASSUME(name_child != NULL);
		name_child[0] = 'c';
		name_child[1] = 0;
		cfg.filename = name_child;
		cfg.line = vin_line;
		for (i = 0; i < W; i++)
			src_child[i] = 0; /* the included source is exhausted */
		cfg_scan_fp_begin(&fake_fp[0]); /* parent */
		cfg_scan_fp_begin(&fake_fp[1]); /* included file */
		set_depth(DEPTH);
		cfg_include_stack[DEPTH - 1].fp = OWN ? &fake_fp[1] : &fake_fp[2];
		cfg_include_stack[DEPTH - 1].filename = name_parent;
		cfg_include_stack[DEPTH - 1].line = (unsigned)vin_saved_line;
		BEGIN(SC);
#ifdef RDFAIL
		cfg_input_failed = &fake_fp[1]; /* the last read of the current source failed (what YY_INPUT records) */
#endif
		tok = cfg_yylex(&cfg);
#ifdef RDFAIL
		V_ASSERT(tok == 0 && n_err >= 1, "[C13] a source that cannot be read (directory, I/O error) is a reported parse error, never taken for an empty file");
#if SC != 3
		V_ASSERT(cfg_input_failed == NULL, "[C08] a reported read failure is forgotten");
#endif
		V_WITNESS("rdfail");
#elif SC == 3
		V_ASSERT(tok == 0 && n_err >= 1, "[C03] an unterminated single-quoted string is rejected, also at the end of an included file");
		V_WITNESS("sq");
#else
		if (OWN) {
			V_ASSERT(n_close == 1 && closed_fp == &fake_fp[1], "[C13] the end of an included file closes exactly that file");
			V_ASSERT(cfg_include_stack_ptr == DEPTH - 1, "[C13] the end of an included file frees exactly one include slot");
			V_ASSERT(cfg.filename == name_parent && cfg.line == vin_saved_line, "[C13] file name and line of the including source are restored");
			V_ASSERT(flat_sp == 1 && cfg_yyin == &fake_fp[0], "[C13] scanning returns to the including source");
#if SC == 0
			V_ASSERT(tok == CFGT_STR && cfg_yylval != NULL && strcmp(cfg_yylval, "x") == 0, "[C13] the same call goes on to deliver the including source's next token");
#endif
			V_WITNESS("own");
		} else {
			V_ASSERT(tok == -1, "[C13] the end of a source that was not opened by include() just ends that scan");
			V_ASSERT(n_close == 0 && cfg_include_stack_ptr == DEPTH && cfg.filename == name_child && flat_sp == 2, "[C13] a foreign include slot is left alone (nothing closed, popped or renamed)");
			V_WITNESS("foreign");
		}
#endif
		V_ASSERT(n_echo == 0, "[C02] nothing is echoed at the end of a source");
	}
#elif MODE == 3
	{
		int sp0;
		V_IN_UINT(vin_qindex);

		cfg.filename = name_parent;
		cfg.line = 1;
		cfg_scan_fp_begin(&fake_fp[0]);
		BEGIN(SC);
		/* every scalar global that lexer.l itself defines (list generated from the current source): an
		 * aborted parse may leave an integer in any value and a pointer either clear or naming one of the
		 * parse's own sources; the ones with a known meaning are given their realistic state below */
		{
			V_IN_UINT(vin_gsel);
#define HAVOC_I(name) { V_IN_UINT(vin_g_##name); name = (__typeof__(name))vin_g_##name; }
#define HAVOC_P(name) { name = (vin_gsel == 1) ? (__typeof__(name))(void *)&fake_fp[0] : (vin_gsel >= 2 && vin_gsel < 2 + DEPTH && vin_gsel < 5) ? (__typeof__(name))(void *)&inc_fp[vin_gsel - 2] : 0; }
#define HAVOC(name, kind, init) HAVOC_##kind(name)
			FLAT_LEXER_GLOBALS(HAVOC)
			cfg_qstring = NULL;
			qstring_index = qstring_len = 0;
			cfg_include_stack_ptr = 0;
		}
#if QS == 1
		V_ASSUME(vin_qindex <= 32);
		qstring_len = 32;
		cfg_qstring = malloc(33);
		V_ASSUME(cfg_qstring != NULL);
		qstring_index = vin_qindex;
#else
		(void)vin_qindex;
#endif
		/* the parse was aborted DEPTH include levels deep: each level has its source on the stack, its
		 * FILE and the includer's saved name in its slot */
		{
			int k;

			for (k = 0; k < DEPTH && k < 3; k++) {
				cfg_scan_fp_begin(&inc_fp[k]);
				cfg_include_stack[k].fp = &inc_fp[k];
				cfg_include_stack[k].filename = malloc(2);
				V_ASSUME(cfg_include_stack[k].filename != NULL);
				cfg_include_stack[k].filename[0] = 'n';
				cfg_include_stack[k].filename[1] = 0;
				cfg_include_stack[k].line = 1;
			}
			cfg_include_stack_ptr = DEPTH;
			BEGIN(SC);
		}
		sp0 = flat_sp;
		/* what cfg_parse_fp() runs between the end of one parse and the start of the next */
		cfg_scan_fp_end();
		cfg_scan_fp_begin(&fake_fp[2]);
		V_ASSERT(YY_START == INITIAL, "[C08] every parse starts in the initial scanning context, whatever the previous one ended in");
		V_ASSERT(cfg_qstring == NULL && qstring_index == 0 && qstring_len == 0, "[C08] the scratch buffer of the previous parse is released");
		V_ASSERT(flat_sp == 1 && sp0 == DEPTH + 1 && cfg_yyin == &fake_fp[2], "[C08] every source of the previous parse is popped and the new one is current");
		V_ASSERT(cfg_include_stack_ptr == 0, "[C08] no include level of an earlier parse survives into the next one");
		V_ASSERT(n_close == DEPTH, "[C07] every included file that an aborted parse left open is closed, exactly once");
#define FRESH(name, kind, init) V_ASSERT(name == (__typeof__(name))(init), "[C08] scanner global " #name " has its fresh-process value again when the next parse starts");
		FLAT_LEXER_GLOBALS(FRESH)
	}
#endif
	V_WITNESS("end of harness");
	return 0;
}
