/* build.h - construction of valid library states directly in the harness (DESIGN rule 3):
 * every field assigned explicitly so that symbolic execution keeps pointers constant. */
#ifndef BUILD_H
#define BUILD_H

static int n_err;
static cfg_t *err_cfg;
static void errfn(cfg_t *cfg, const char *fmt, va_list ap)
{
	(void)fmt;
	(void)ap;
	n_err++;
	err_cfg = cfg;
}

static char *heap_str(const char *s)
{
	char *r = malloc(strlen(s) + 1);

	V_ASSUME(r != NULL);
	strcpy(r, s);
	return r;
}

static void init_opt(cfg_opt_t *o, const char *name, cfg_type_t type, cfg_flag_t flags)
{
	o->name = name ? heap_str(name) : NULL;
	o->comment = NULL;
	o->type = type;
	o->nvalues = 0;
	o->values = NULL;
	o->flags = flags;
	o->subopts = NULL;
	o->def.number = 0;
	o->def.fpnumber = 0;
	o->def.boolean = cfg_false;
	o->def.string = NULL;
	o->def.parsed = NULL;
	o->func = NULL;
	o->simple_value.ptr = NULL;
	o->parsecb = NULL;
	o->validcb = NULL;
	o->validcb2 = NULL;
	o->pf = NULL;
	o->freecb = NULL;
}

/* give o room for n value cells (n concrete) */
static void alloc_values(cfg_opt_t *o, unsigned n)
{
	unsigned i;

	o->nvalues = n;
	o->values = NULL;
	if (n == 0)
		return;
	o->values = malloc(n * sizeof(cfg_value_t *));
	V_ASSUME(o->values != NULL);
	for (i = 0; i < n; i++) {
		o->values[i] = malloc(sizeof(cfg_value_t));
		V_ASSUME(o->values[i] != NULL);
		o->values[i]->ptr = NULL;
	}
}

static void init_cfg(cfg_t *c, const char *name, cfg_opt_t *opts, cfg_flag_t flags)
{
	c->flags = flags;
	c->name = heap_str(name);
	c->comment = NULL;
	c->opts = opts;
	c->title = NULL;
	c->filename = heap_str("f");
	c->line = 1;
	c->errfunc = errfn;
	c->path = NULL;
	c->pff = NULL;
}

/* heap array of n+1 options, the last one being the all-zero end marker */
static cfg_opt_t *alloc_opts(unsigned n)
{
	cfg_opt_t *a = malloc((n + 1) * sizeof(cfg_opt_t));

	V_ASSUME(a != NULL);
	memset(&a[n], 0, sizeof(cfg_opt_t));
	a[n].name = NULL;
	a[n].comment = NULL;
	a[n].subopts = NULL;
	a[n].def.parsed = NULL;
	a[n].def.string = NULL;
	return a;
}

/* a section instance with sub-options "a" (int, default 7) and "z" (string, default "q"), as
 * cfg_setopt() + cfg_init_defaults() leave it */
static cfg_t *mk_section2(const char *secname, const char *title, cfg_flag_t ctxflags)
{
	cfg_t *sec = malloc(sizeof(cfg_t));
	cfg_opt_t *o = alloc_opts(2);

	V_ASSUME(sec != NULL);
	init_opt(&o[0], "a", CFGT_INT, CFGF_DEFINIT | CFGF_RESET);
	alloc_values(&o[0], 1);
	o[0].values[0]->number = 7;
	o[0].def.number = 7;
	init_opt(&o[1], "z", CFGT_STR, CFGF_DEFINIT | CFGF_RESET);
	alloc_values(&o[1], 1);
	o[1].values[0]->string = heap_str("q");
	o[1].def.string = heap_str("q");
	init_cfg(sec, secname, o, ctxflags);
	sec->title = title ? heap_str(title) : NULL;
	return sec;
}

#endif
