/* lex_step.c - ONE rule-match step of the (flattened) scanner from an arbitrary valid scanner
 * state, all rules of the start condition symbolic in one query.
 *
 * Code under test: every rule action of /repo/src/lexer.l as flex emitted it, and the user
 * code of lexer.l (qputc qput qbeg qend qstr trim_whitespace), through lexer_flat.c which
 * gen/genflat.py regenerates from /repo on every run (validated against flex's scanner).
 *
 * Parameters: -DSC=0..3 start condition, -DW=n window bytes (all symbolic, NUL = end of input),
 *             -DQS=0|1 scratch buffer unallocated / allocated (capacity 32) holding QIDX bytes
 *                      (the fill level is a concrete obligation parameter, the bytes are symbolic),
 *             -DENVW=n bytes of the symbolic environment value,
 *             -DCHK_C02 -DCHK_C03 -DCHK_C06 -DCHK_C15 which assertion groups are compiled.
 */
#ifndef W
#define W 4
#endif
#ifndef ENVW
#define ENVW 2
#endif
#ifndef QIDX
#define QIDX 0
#endif
#define MAXV (QIDX + W + ENVW + 2) /* longest text an oracle loop has to walk */

#include "verif.h"
#include <stdio.h>
#include <stdlib.h>
#include <string.h>
#include <stdarg.h>
#include "confuse.h"
#include "lex_ref.h"

/* symbolic inputs carry the vin_ prefix so that the runner finds them in counterexample traces */
#define orig vin_orig
#define pre_scratch vin_pre_scratch
#define env_val vin_env_val

char *cfg_yylval;
static int n_err, n_echo, n_close;
static cfg_t *err_cfg;

void cfg_error(cfg_t *cfg, const char *fmt, ...)
{
	(void)fmt;
	n_err++;
	err_cfg = cfg;
}
char *cfg_searchpath(cfg_searchpath_t *p, const char *file)
{
	(void)p;
	(void)file;
	return NULL;
}
char *cfg_tilde_expand(const char *filename)
{
	(void)filename;
	return NULL;
}

/* environment model: one symbolic variable; the name asked for is recorded */
static char env_val[ENVW + 1];
static int env_set;
static char env_asked[W + 1];
static int env_queries;
static char *v_getenv(const char *name)
{
	int i;

	for (i = 0; i < W && name[i]; i++)
		env_asked[i] = name[i];
	env_asked[i] = 0;
	env_queries++;
	return env_set ? env_val : NULL;
}
#define getenv v_getenv

static FILE *v_fopen(const char *path, const char *mode)
{
	(void)path;
	(void)mode;
	return NULL;
}
static int v_fclose(FILE *fp)
{
	(void)fp;
	n_close++;
	return 0;
}
#define fopen v_fopen
#define fclose v_fclose

#ifdef __CPROVER__
/* sscanf("%o") / sscanf("%x") on at most 3 digits, as used by the escape rules */
static int v_sscanf(const char *s, const char *fmt, unsigned int *out)
{
	unsigned v = 0;
	int base = (fmt[1] == 'o') ? 8 : 16, i;

	for (i = 0; i < 3; i++) {
		int d = ref_hexval((unsigned char)s[i]);

		if (d < 0 || d >= base)
			break;
		v = v * (unsigned)base + (unsigned)d;
	}
	if (i == 0)
		return 0;
	*out = v;
	return 1;
}
#define sscanf v_sscanf
#endif

#define ECHO do { n_echo++; } while (0)
static void verif_break(void);
#define YY_BREAK { verif_break(); break; }
static int st_act, st_start, st_pos;
#ifdef RULE
/* obligation = one rule action: the rule the DFA selected must be RULE (all other rules are other
 * obligations of the table); assigning the constant lets symbolic execution follow one case only */
#define FLAT_STEP_HOOK(act, s, p) do { st_start = (s); st_pos = (p); V_ASSUME((act) == (RULE)); (act) = (RULE); st_act = (RULE); } while (0)
#elif defined(RULE_NONE)
/* completeness obligation: the DFA never selects anything but a rule action or an <<EOF>> action */
#define FLAT_STEP_HOOK(act, s, p) do { V_ASSERT((act) >= 1 && (act) <= YY_END_OF_BUFFER + 4 && (act) != YY_END_OF_BUFFER, "[C02] the scanner always selects a rule or end-of-input action"); V_WITNESS("completeness checked"); V_CUT(); } while (0)
#else
#define FLAT_STEP_HOOK(act, s, p) do { st_act = (act); st_start = (s); st_pos = (p); } while (0)
#endif

static char src[W + 1];	 /* the source the scanner reads (it writes its hold character into it) */
static char orig[W + 1]; /* pristine copy for the oracle */
static FILE fake_fp;
char *flat_text_for(FILE *fp)
{
	(void)fp;
	return src;
}

#include "lexer_flat.c"
#include "libc_models.h"

static cfg_t cfg;
static int line0;
static size_t index0, len0;
static int sc0;
static char pre_scratch[40];

/* what the step must contribute to the text under construction */
static int exp_len(const struct ref_out *r)
{
	if (r->env_query && !r->text_env) {
		if (env_set)
			return (int)strlen(env_val);
		return r->env_has_def ? r->env_def_len : 0;
	}
	return r->napp;
}
static unsigned char exp_at(const struct ref_out *r, int k)
{
	if (r->env_query && !r->text_env)
		return (unsigned char)(env_set ? env_val[k] : orig[r->env_def_off + k]);
	return ref_app_at(r, (const unsigned char *)orig, k);
}
/* i-th byte of (text accumulated before the step) ++ (contribution of the step) */
static unsigned char vc_at(const struct ref_out *r, int base, int i)
{
	if (i < base)
		return (unsigned char)pre_scratch[i];
	return exp_at(r, i - base);
}

static void check_post(int tok)
{
	int consumed = st_pos - st_start;
	int is_eof_action = st_act > YY_END_OF_BUFFER;
	int nl = 0, i;

	for (i = 0; i < consumed && i < W; i++)
		if (orig[i] == '\n')
			nl++;

#ifdef CHK_C02
	V_ASSERT(n_echo == 0, "[C02] no input byte falls through to the scanner's default echo rule (nothing is written to stdout)");
	V_ASSERT(is_eof_action || consumed >= 1, "[C02] every scanning step consumes at least one byte (termination)");
	V_ASSERT(consumed >= 0 && consumed <= W, "[C02] a step never consumes beyond the end of the input");
	V_ASSERT((cfg_qstring == NULL) == (qstring_len == 0), "[C02] scratch buffer pointer and capacity stay consistent");
	V_ASSERT(qstring_index <= qstring_len, "[C02] scratch buffer index stays within its capacity");
	if (tok == CFGT_STR || tok == CFGT_COMMENT) {
		V_ASSERT(cfg_yylval != NULL, "[C02] a string or comment token always carries a text (never NULL)");
		if (cfg_yylval != NULL) {
			size_t l = strlen(cfg_yylval); /* walks the token text under pointer checks */

			V_ASSERT(l <= W + ENVW + 34, "[C02] token text is NUL-terminated inside its buffer");
		}
	}
	if (cfg_qstring != NULL)
		V_ASSERT(cfg_qstring[qstring_len] == 0, "[C02] scratch buffer keeps its terminating NUL");
#endif
#ifdef CHK_C06
	V_ASSERT(cfg.line - line0 == nl, "[C06] the line counter grows by exactly the newlines the step consumed");
	if (tok == 0)
		V_ASSERT(n_err >= 1 && err_cfg == &cfg, "[C06] a lexical error is reported on the context being scanned");
	else
		V_ASSERT(n_err == 0, "[C06] no diagnostic without a lexical error");
#endif
#if defined(CHK_C03) || defined(CHK_C15)
	{
		struct ref_out r;
		int sc_now = YY_START;

		ref_lex_step(sc0, (const unsigned char *)orig, W, &r);
		if (!r.grey) {
			if (r.glued_comment) {
				/* own assertion text: this case is a recorded finding, any other length mismatch is not */
				V_ASSERT(consumed == r.consumed, "[C15] an unquoted word directly followed by a slash-star comment does not swallow the comment's slash");
				if (consumed != r.consumed)
					return;
			}
#ifdef CHK_C03
			V_ASSERT(consumed == r.consumed, "[C03] the step consumes exactly the bytes of the lexical form");
			V_ASSERT(tok == r.tok, "[C03] the step yields the token (or none) the form denotes");
			V_ASSERT(sc_now == r.new_sc, "[C03] the step leaves the scanner in the right quoting context");
			V_ASSERT(n_err == r.nerr, "[C03] invalid forms are rejected with a diagnostic, valid ones are not");
			if (r.env_query) {
				V_ASSERT(env_queries == 1, "[C03] ${NAME} looks the variable up once");
				V_ASSERT((int)strlen(env_asked) == r.env_name_len && memcmp(env_asked, orig + r.env_name_off, (size_t)r.env_name_len) == 0,
					 "[C03] ${NAME[:-default]} looks up exactly NAME");
			} else {
				V_ASSERT(env_queries == 0, "[C03] no environment lookup outside ${...}");
			}
#endif
			if (r.tok != 0 && r.tok != -1 && tok == r.tok && consumed == r.consumed) {
				int ne = exp_len(&r);
				int base = r.reset ? 0 : (int)index0;

				if (r.closes) {
#ifdef CHK_C03
					V_ASSERT(cfg_yylval == cfg_qstring, "[C03] a closing quote delivers the accumulated string");
					V_ASSERT(cfg_qstring != NULL && cfg_qstring[index0] == 0, "[C03] the delivered string ends where accumulation stopped");
					if (cfg_qstring != NULL && len0 != 0)
						for (i = 0; i < QIDX; i++)
							V_ASSERT(cfg_qstring[i] == pre_scratch[i], "[C03] a closing quote does not alter the accumulated bytes");
#endif
				} else if (r.trimmed) {
					/* comment token: the accumulated comment text stripped of surrounding white space */
					int total = base + ne, e = total, s0 = 0, j;

					for (j = 0; j < MAXV; j++)
						if (e > 0 && ref_is_ws(vc_at(&r, base, e - 1)))
							e--;
					for (j = 0; j < MAXV; j++)
						if (s0 < e && ref_is_ws(vc_at(&r, base, s0)))
							s0++;
					V_ASSERT(cfg_yylval != NULL, "[C15] a comment token carries a text");
					if (cfg_yylval != NULL) {
						for (j = 0; j < MAXV; j++)
							if (j < e - s0)
								V_ASSERT((unsigned char)cfg_yylval[j] == vc_at(&r, base, s0 + j),
									 "[C15] a comment token carries the comment text stripped of markers and surrounding white space");
						V_ASSERT(cfg_yylval[e - s0] == 0, "[C15] a comment token's text ends with the comment");
					}
				} else if (r.text_input) {
#ifdef CHK_C03
					V_ASSERT(cfg_yylval != NULL && (int)strlen(cfg_yylval) == r.consumed && memcmp(cfg_yylval, orig, (size_t)r.consumed) == 0,
						 "[C03] an unquoted word or punctuator is taken verbatim");
#endif
				} else if (r.text_env) {
#ifdef CHK_C03
					if (env_set) {
						V_ASSERT(cfg_yylval != NULL && strcmp(cfg_yylval, env_val) == 0, "[C03] unquoted ${NAME} yields the variable's value");
					} else if (r.env_has_def) {
						V_ASSERT(cfg_yylval != NULL && (int)strlen(cfg_yylval) == r.env_def_len &&
								 memcmp(cfg_yylval, orig + r.env_def_off, (size_t)r.env_def_len) == 0,
							 "[C03] unquoted ${NAME:-default} yields the default when NAME is unset");
					} else {
						V_ASSERT(cfg_yylval != NULL && cfg_yylval[0] == 0, "[C03] unquoted ${NAME} of an unset variable is the empty string");
					}
#endif
				} else {
#ifdef CHK_C03
					/* accumulation step */
					V_ASSERT((int)qstring_index == base + ne, "[C03] the step appends exactly the decoded bytes (count)");
					if ((int)qstring_index == base + ne && cfg_qstring != NULL) {
						int j;

						for (j = 0; j < W + ENVW; j++)
							if (j < ne)
								V_ASSERT((unsigned char)cfg_qstring[base + j] == exp_at(&r, j), "[C03] the step appends exactly the decoded bytes (content)");
						if (!r.reset && len0 != 0)
							for (j = 0; j < QIDX; j++)
								V_ASSERT(cfg_qstring[j] == pre_scratch[j], "[C03] earlier bytes of the string are untouched");
					}
#endif
				}
			}
		}
		V_WITNESS("oracle compared");
	}
#endif
	V_WITNESS("post-state checked");
	(void)is_eof_action;
	(void)nl;
}

static void verif_break(void)
{
	check_post(REF_NONE);
	V_WITNESS("non-returning rule");
	V_CUT();
}

#if QS == 1
/* allocated scratch buffer (capacity 32) holding QIDX accumulated bytes */
static void pre_fill(void)
{
	int i;

	qstring_len = 32;
	cfg_qstring = malloc(33);
	V_ASSUME(cfg_qstring != NULL);
	V_FILL_STR(pre_scratch, 32);
	qstring_index = QIDX;
	for (i = 0; i < 32; i++) {
#if SC != 0
		/* inside a string/comment the bytes before the index are the accumulated text (no
		 * NUL), the rest of the buffer is still zero (qputc/qbeg keep it so) */
		if (i < QIDX)
			V_ASSUME(pre_scratch[i] != 0);
		else
			V_ASSUME(pre_scratch[i] == 0);
#endif
		cfg_qstring[i] = pre_scratch[i];
	}
	cfg_qstring[32] = 0;
}
#endif

/* partition of the input space by the first byte (the obligation table covers all classes) */
static void first_class(void)
{
#ifdef FIRST_IN
	{
		const char *fs = FIRST_IN;
		int ok = 0, k;

		for (k = 0; fs[k]; k++)
			if (orig[0] == fs[k])
				ok = 1;
		V_ASSUME(ok);
	}
#endif
#ifdef FIRST_NOTIN
	{
		const char *fs = FIRST_NOTIN;
		int k;

		for (k = 0; fs[k]; k++)
			V_ASSUME(orig[0] != fs[k]);
	}
#endif
}

int main(void)
{
	int tok, i;

	memset(&cfg, 0, sizeof(cfg));
	cfg.name = "root";
	cfg.filename = "f";
	{
		V_IN_INT(vin_line);
		V_ASSUME(vin_line >= 1 && vin_line < 1000000);
		cfg.line = vin_line;
		line0 = vin_line;
	}
	V_FILL_STR(orig, W);
	first_class();
	for (i = 0; i <= W; i++)
		src[i] = orig[i];
	{
		V_IN_BOOL(vin_env_set);
		env_set = vin_env_set;
		V_FILL_STR(env_val, ENVW);
	}

	cfg_scan_fp_begin(&fake_fp);
	BEGIN(SC);
	sc0 = SC;
#if QS == 1
	pre_fill();
#else
	V_ASSUME(cfg_qstring == NULL && qstring_len == 0 && qstring_index == 0);
#endif
	index0 = qstring_index;
	len0 = qstring_len;

	tok = cfg_yylex(&cfg);
	check_post(tok);
	V_WITNESS("returning rule");
	V_WITNESS("end of harness");
	return 0;
}
