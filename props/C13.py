"""C13 - including a file equals reading its text in place (DESIGN 4/C13)."""
from runner import Ob
from props.common import run_with
from props.inclcommon import push_obs, pop_obs, rest_obs, rdfail_obs
from props.parsecommon import parse_step_obs

NEEDS_LEXER = True
FUNCS = ["cfg_lexer_include", "<<EOF>> rule actions (all start conditions)", "cfg_scan_fp_begin", "cfg_scan_fp_end", "cfg_include", "cfg_parse_internal states 7-9", "call_function"]


def build_obs(tier, tables):
    obs = push_obs("c13") + pop_obs("c13") + rest_obs("c13", depths=(1, 3)) + rdfail_obs("c13")
    obs.append(Ob("c13-flex-unreadable-input", "flex_input.c", [], unwind=6, checks="none", must_reach=("end of harness",),
                  params={"what": "real yy_get_next_buffer() of the flex output with fread() == 0 and ferror() set (a directory as include target)"}))
    obs.append(Ob("c13-include-argc", "incl_call.c", [], unwind=6, checks="std", must_reach=("end of harness", "argc", "one")))
    obs += parse_step_obs(["CHK_C14", "CHK_C01"], "c13call", states=[7, 8, 9], tier=tier)
    obs += [o for o in parse_step_obs(["CHK_C17"], "c13sec", states=[5], tier=tier, extra_all=("WITH_PATH=1",)) if "validcb" not in o.key]
    # "whether f is found directly or through the search path": the resolution include() delegates to (shared with C17)
    import props.C17 as C17
    obs += [o for o in C17.build_obs(tier, with_lexer=False) if o.key.startswith("searchpath-") or o.key.startswith("tilde-")]
    return obs


def run(tier, seed):
    return run_with(
        "C13", tier, seed, build_obs, needs_lexer=True, functions=FUNCS,
        bounds="push: the real cfg_lexer_include() at include depth 0/1/9/10, with and without a search path, resolution and fopen() verdicts symbolic; pop: one cfg_yylex() call at the end of an included source in each start condition, slot owned by the source or foreign, depth 1/10; between parses: cfg_scan_fp_end()+cfg_scan_fp_begin() from include depth 1/3; parser: call states 7-9 (arguments reach the function in order), state 5 (sections borrow the search path); cfg_include() argc check",
        assumptions=[
            "token stream with include = token stream of the text in place follows from push/pop lemmas (the same cfg_yylex call continues with the includer's next token); values then follow from C01 (paper argument)",
            "fopen/fclose/cfg_searchpath/cfg_tilde_expand are recording stubs with symbolic verdicts (real resolution is C17's claim); directories as targets and unbalanced include files are outside the claim",
            "known finding: an include level left open by an aborted parse survives into later parses (see known_findings.txt)",
        ])


MANIFEST = {
    "text": "The real include push (cfg_lexer_include) and pop (<<EOF>> actions) run on the flattened scanner from concrete depths with symbolic failure verdicts: a successful push saves handle/name/line and switches source, any failure is a reported error that changes nothing and consumes no slot, the end of an included source closes exactly its file, restores name and line and the same call delivers the includer's next token; beyond depth 10 is a reported error.",
    "note": "Step lemmas on the flattened scanner with stubbed file system; equivalence with in-place text is the paper composition.",
}
