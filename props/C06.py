"""C06 - rejected input is always reported, with the right file and line (DESIGN 4/C06)."""
from props.common import run_with
from props.parsecommon import parse_step_obs, pathname_obs
from props.lexcommon import lex_step_obs
from props.inclcommon import push_obs, pop_obs
from runner import Ob

NEEDS_LEXER = True
FUNCS = ["every rule action of lexer.l (line counting)", "qput", "qend", "qstr", "cfg_parse_internal (every goto error / cfg_error site, states 0-15)", "cfg_error", "cfg_setopt (diagnostics)",
         "cfg_getopt_secidx (diagnostics)", "cfg_parse_internal state 5 (section position)"]


def build_obs(tier, tables):
    obs = lex_step_obs(tables, ["CHK_C06"], tier, "c06lex", windows=[4] if tier == "quick" else [4, 6], checks="none",
                       variants=("null", "fill2", "fill5"))
    obs += parse_step_obs(["CHK_C06", "CHK_C01"], "c06par", states=range(0, 16), callbacks=True, tier=tier)
    # per included file: name and line of the includer are saved, counting restarts at 1, both are restored
    obs += push_obs("c06") + [o for o in pop_obs("c06") if "own" in o.key]
    # every parse starts at line 1
    obs.append(Ob("c06-parse-starts-at-line-1", "alloc_step.c", ["-DMODE=14", "-DFAIL_AT=-1"], unwind=8, checks="none", must_reach=("end of harness",)))
    obs += pathname_obs(["CHK_C06", "CHK_C01"], "c06par")
    return obs


def run(tier, seed):
    return run_with(
        "C06", tier, seed, build_obs, needs_lexer=True, functions=FUNCS,
        bounds="lexer: every rule action x start condition on a 4 (6) byte window: cfg->line grows by exactly the newlines consumed, lexical errors are reported on the scanned context; parser: every state 0-15 x option kind with a symbolic token: STATE_ERROR implies >= 1 diagnostic delivered for the context being scanned, an accepted token delivers none (deprecated options excepted); state 5: the section's end line is copied back",
        assumptions=[
            "line of a diagnostic = 1 + newlines consumed before the end of the offending token follows from the per-step line lemma by induction (paper argument)",
            "file name/line restoration across include push/pop is decided under C13",
            "user callbacks that fail silently and out-of-memory paths are outside the claim",
        ])


MANIFEST = {
    "text": "Per scanner step: the line counter grows by exactly the newlines consumed (all rules, all start conditions); per parser step: every rejecting transition delivers a diagnostic to the error function with the context being scanned, accepting transitions deliver none; a closed section hands its last line back to the including context.",
    "note": "One-step lemmas (flattened scanner, parser hook); stub error function records count/context/line.",
}
