"""C16 - a context owns a private copy of its schema and shares nothing (DESIGN 4/C16)."""
from runner import Ob
from props.common import run_with
from props.parsecommon import parse_step_obs
from props.C18 import MODES

NEEDS_LEXER = False
FUNCS = ["cfg_dupopt_array", "cfg_free_opt_array", "cfg_setopt (CFGT_SEC: cfg_dupopt_array(opt->subopts))", "cfg_init_defaults", "cfg_opt_setnint/-str", "cfg_opt_setcomment", "cfg_parse_internal state 5"]


def build_obs(tier, tables=None):
    obs = [
        Ob("c16-dupopt-nofault", "alloc_step.c", ["-DMODE=%d" % MODES["DUPOPT"], "-DFAIL_AT=-1"], unwind=8, checks="std", must_reach=("end of harness", "success path")),
        Ob("c16-dupopt-anyfault", "alloc_step.c", ["-DMODE=%d" % MODES["DUPOPT"]], unwind=8, checks="none", flags=["--pointer-check", "--bounds-check"], must_reach=("end of harness", "failure path")),
    ]
    obs += [o for o in parse_step_obs(["CHK_C01", "CHK_C16"], "c16", states=[5], tier=tier) if "secm" in o.key or "sect-" in o.key or "-sec-nv0" in o.key]
    # a free-form (KEYSTRVAL) section that also declares sub-options: its instances get the declared defaults too
    from props.parsecommon import _ob
    obs.append(_ob("c16", ["CHK_C01", "CHK_C16"], 5, "SECKV", 0, 0, 0, extra=("KV_SUBOPTS",)))
    # the one object instances do share with their context - the borrowed search path - is never released
    # through an instance (replacing an instance must not free what its siblings and the root still use)
    extra = [o for o in parse_step_obs(["CHK_C07", "CHK_C16"], "c16path", states=[5], tier=tier, extra_all=("WITH_PATH=2",)) if "sect-" in o.key]
    for o in extra:
        o.flags = ["--pointer-check"]
    obs += extra
    return obs


def run(tier, seed):
    return run_with(
        "C16", tier, seed, build_obs, functions=FUNCS,
        bounds="declarations on the heap: 2 options (a list with annotation, default string and parsed default; a multi section with 1 sub-option), all strings symbolic 1 byte; copy, then overwrite and free every caller-owned object and re-check the copy; with every allocation of the copy failing in turn (symbolic k) the caller's objects must be untouched; parser state-5 steps: the instance created by the real cfg_setopt() next to 0-2 existing instances shares no object with them or the declarations and has the declared defaults",
        assumptions=[
            "interleavings of operations on two contexts reduce to 'no shared mutable object' (checked) plus C08 for the scanner globals (paper argument)",
            "cfg_init() itself is not symbolically executed (too heavy); it calls cfg_dupopt_array() once on the caller's array",
        ])


MANIFEST = {
    "text": "The real cfg_dupopt_array() copies a heap-built declaration tree with symbolic strings; every pointer field of the copy must be fresh, contents equal, and equal still after the originals are overwritten and freed; on any allocation failure the caller's objects are untouched. Sibling section instances created by the real cfg_setopt() share no mutable object with each other or with the declarations.",
    "note": "Function-level obligations on harness-built declarations; cfg_init as a whole is not executed.",
}
