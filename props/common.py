"""Glue shared by the property modules: scratch handling, optional lexer preparation, evidence."""
import shutil

import lexbuild
import runner


def run_with(pid, tier, seed, build_obs, needs_lexer=False, **kw):
    scratch = runner.make_scratch()
    try:
        info = None
        if needs_lexer:
            try:
                info = lexbuild.prepare_lexer(scratch, tier)
            except lexbuild.Inconclusive as e:
                print("INCONCLUSIVE property=%s: %s" % (pid, e))
                return 2
        obs = build_obs(tier, info["tables"] if info else None)
        extra = dict(kw.pop("extra_coverage", {}) or {})
        assumptions = list(kw.pop("assumptions", []))
        if info:
            extra["translation_validation"] = {k: v for k, v in info.items() if k != "tables"}
            assumptions.append("scanner = flattened scanner derived from /repo's lexer.l on this run; " + info.get("translation_validation", ""))
        rc = runner.run_property(pid, obs, tier, seed=seed, scratch=scratch, assumptions=assumptions, extra_coverage=extra, **kw)
        if info and "mismatch" in info and rc == 0:
            # the native translation validation failed: either the translator needs attention or the real
            # scanner misbehaves natively (e.g. returns freed memory); a clean solver verdict on the derived
            # scanner is not accepted as a pass
            print("INCONCLUSIVE property=%s: %s (no pass is reported; violations found on the derived scanner are still reported)" % (pid, info["mismatch"]))
            return 2
        return rc
    finally:
        shutil.rmtree(scratch, ignore_errors=True)


def all_obligations(build_obs, needs_lexer):
    """for --replay: obligation list without running (needs the rule table when the lexer is involved)"""
    scratch = runner.make_scratch()
    try:
        tables = None
        if needs_lexer:
            tables = lexbuild.prepare_lexer(scratch, "quick")["tables"]
        out = {}
        for tier in ("quick", "thorough"):
            for ob in build_obs(tier, tables):
                out.setdefault(ob.key, ob)
        return list(out.values())
    finally:
        shutil.rmtree(scratch, ignore_errors=True)
