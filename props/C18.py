"""C18 - running out of memory yields an error return, not corruption (DESIGN 4/C18)."""
from runner import Ob
from props.common import run_with

NEEDS_LEXER = False
FUNCS = ["cfg_parse_buf", "cfg_parse_fp", "call_function", "cfg_searchpath", "cfg_make_fullpath", "cfg_getopt_secidx", "cfg_opt_setnint", "cfg_addval", "cfg_addopt", "cfg_dupopt_array", "cfg_free_opt_array", "cfg_setopt (CFGT_STR, CFGT_SEC)", "cfg_opt_setnstr", "cfg_opt_setcomment", "cfg_opt_setmulti",
         "cfg_addtsec", "cfg_add_searchpath", "cfg_tilde_expand", "cfg_init", "cfg_init_defaults"]
MODES = dict(PARSEBUF=14, CALLFUNC=15, SEARCHPATH=16, GETOPT_PATH=17, SETNINT_LIST=18, ADDVAL=1, ADDOPT=2, DUPOPT=3, SETOPT_STR=4, SETOPT_SEC=5, SETNSTR=6, SETCOMMENT=7, SETMULTI=8, ADD_SEARCHPATH=9, TILDE=10, INIT=11, ADDTSEC=12)


def alloc_obs(tag, modes=None, excl=False):
    obs = []
    def add(mode, nv=1, extra=()):
        if modes is not None and mode not in modes:
            return
        defs = ["-DMODE=%d" % MODES[mode], "-DNV=%d" % nv] + ["-D" + e for e in extra]
        obs.append(Ob("%s-%s-nv%d" % (tag, mode.lower(), nv) + "".join("-" + e.lower().replace("fail_at=", "k").replace("k-1", "knone") for e in extra), "alloc_step.c", defs, unwind=8, checks="none", flags=["--pointer-check", "--bounds-check"],
                      family="allocstep", must_reach=("end of harness",), params={"function": mode, "values_held": nv, "fault": "symbolic k in -1..23"}))
    for nv in (0, 1, 2):
        add("ADDVAL", nv)
    for nv in (0, 2):
        add("ADDOPT", nv)
    add("DUPOPT")
    add("SETOPT_STR")
    add("SETNSTR")
    add("SETCOMMENT")
    add("ADD_SEARCHPATH")
    add("TILDE")
    add("PARSEBUF")
    add("CALLFUNC")
    add("SEARCHPATH")
    add("GETOPT_PATH")
    for nv in (0, 2):
        add("SETNINT_LIST", nv)
    # compound calls: one obligation per failing allocation k (k = -1: none fails)
    for k in range(-1, 16):
        add("SETOPT_SEC", 1, extra=("FAIL_AT=%d" % k,))
    for k in range(-1, 16, 3):
        add("SETOPT_SEC", 0, extra=("FAIL_AT=%d" % k,))
    for k in range(-1, 18):
        add("ADDTSEC", 1, extra=("FAIL_AT=%d" % k,))
    for k in range(-1, 8):
        add("SETMULTI", 1, extra=("FAIL_AT=%d" % k,))
    for k in range(-1, 10):
        add("INIT", 1, extra=("FAIL_AT=%d" % k,))
    return obs


def build_obs(tier, tables=None):
    # (the compound calls with the failing allocation as ONE symbolic variable give no verdict within 1500 s
    #  each - measured; they stay enumerated per k in both tiers)
    obs = alloc_obs("c18")
    # the path resolver copies every path component and every quoted qualifier: the k-th copy failing (concrete
    # k) on shaped symbolic paths must yield not-found / failure and change nothing (path_res.c -DFAIL_AT=k)
    import copy
    import props.C11 as C11
    base = {o.key: o for o in C11.build_obs("thorough")}
    sel = [("path-fn2-NIN", (1, 2)), ("path-fn2-NINEQ", (2, 3)), ("path-fn1-NININ", (2,)), ("path-fn1-NEQIN", (2,)), ("path-fn2-NEqqq", (2,))]
    if tier != "quick":
        sel += [("path-fn1-NIN", (1,)), ("path-fn1-NEqqqIN", (2, 3)), ("path-fn2-NININ", (2, 3)), ("path-fn2-NEQINEQ", (2, 3, 4))]
    for key, ks in sel:
        for k in ks:
            o = copy.deepcopy(base[key])
            o.key = "c18-%s-fail%d" % (key, k)
            o.defs = o.defs + ["-DFAIL_AT=%d" % k]
            o.must_reach = ("end of harness", "allocation failed")
            o.params = dict(o.params, failing_string_copy=k)
            obs.append(o)
    return obs


def run(tier, seed):
    return run_with(
        "C18", tier, seed, build_obs, functions=FUNCS,
        bounds="one allocating function per obligation from a harness-built valid state; the index k of the failing allocation is symbolic over all allocations of the call (k in -1..23, -1 = none): exhaustive inside the solver, one fault per run; strings <= 2 bytes, <= 2 existing values/instances",
        assumptions=[
            "confuse.c is compiled with malloc/calloc/realloc/reallocarray/strdup/strndup mapped to failable wrappers (the harness' own allocations never fail); abort() is mapped to a counter",
            "post-condition = returns, failure visible in the return value, everything reachable is live (__CPROVER_r_ok), caller-owned objects untouched; leak freedom of compound calls and multi-fault schedules are outside the claim",
            "scanner-internal allocations are out of scope (as the property says); whole workloads are replaced by per-function obligations",
        ])


MANIFEST = {
    "text": "Each allocating function of confuse.c is run from a constructed valid state with the k-th of its own allocations failing, k symbolic: the call must return, report failure when the effect is missing, leave every reachable pointer live and every caller-owned object untouched; cfg_init must not hand out a context whose defaults are silently missing.",
    "note": "Per-function fault injection with a symbolic fault index; allocation wrappers are part of the trusted base.",
}
