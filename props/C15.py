"""C15 - comments are transparent; annotations stick to the next option (DESIGN 4/C15)."""
from runner import Ob
from props.common import run_with
from props.parsecommon import parse_step_obs, F
from props.lexcommon import lex_step_obs

NEEDS_LEXER = True
FUNCS = ["cfg_parse_internal (CFGT_COMMENT in every state, annotation attach in state 2)", "cfg_opt_setcomment",
         "lexer.l comment rules ('#', '//', '/*', <comment> rules)", "qstr", "qbeg", "qput", "qend", "trim_whitespace"]
COMMENT_TOK = 8  # CFGT_COMMENT


def build_obs(tier, tables):
    obs = []
    # parser: a comment token in every state, annotations off and on
    obs += parse_step_obs(["CHK_C15", "CHK_C01"], "c15tok", states=range(0, 16), tok=COMMENT_TOK, tier=tier)
    # parser: pending annotation is attached by the assignment (state 2), any token
    obs += [o for o in parse_step_obs(["CHK_C15"], "c15ann", states=[0, 2, 3], tier=tier) if "f800" in o.key]
    # print: an annotation is written as exactly one comment (so that a re-parse reads it back)
    obs.append(Ob("c15-rt-annotation", "c05_rt.c", ["-DMODE=4"], unwind=12, unwindset=["v_fprintf.0:12", "v_fprintf.1:10", "put_ld.0:24", "put_ld.1:24", "main.0:8", "main.1:8", "main.2:40", "v_fputs.0:12", "strstr.0:8", "strchr.0:8"], checks="none", must_reach=("stepped",),
                  params={"what": "annotation of 1-3 symbolic bytes printed by the real printer is exactly one comment of the language"}))
    # lexer: every rule that produces or accumulates comment text
    sc0 = [r for r in tables["reach"]["0"]]
    obs += lex_step_obs(tables, ["CHK_C15", "CHK_C03"], tier, "c15lex", windows=[4], checks="none", scs=(1,))
    obs += lex_step_obs(tables, ["CHK_C15", "CHK_C03"], tier, "c15lex", windows=[5, 7], checks="none", scs=(0,), variants=("null", "fill5"))
    return obs


def run(tier, seed):
    return run_with(
        "C15", tier, seed, build_obs, needs_lexer=True, functions=FUNCS,
        bounds="parser: one CFGT_COMMENT token (symbolic text) in each of the 16 parser states x option kinds x annotation support on/off; lexer: one step of every INITIAL and <comment> rule on a 4-5 byte window from each scratch-buffer variant; annotation text 1-2 bytes",
        assumptions=[
            "insertion of a comment between any two tokens of any text reduces to 'a COMMENT token in any parser state leaves state and store unchanged' by induction over the token sequence (paper argument)",
            "print -> re-parse of annotations is decided under C05",
            "white space transparency = the INITIAL white-space/newline rules produce no token (lexer steps, shared with C03)",
        ])


MANIFEST = {
    "text": "A symbolic comment token is fed to the real parser in each of its 16 states (annotations on and off): state and store must be unchanged, in state 0 with annotations on the text becomes the pending annotation and the next assignment attaches and consumes it; every comment-related scanner rule is stepped against a reference (markers stripped, trimmed, only COMMENT tokens or nothing).",
    "note": "One-step lemmas (parser hook, flattened scanner); metamorphic insertion law follows by induction (paper argument).",
}
