"""C04 - text -> number/boolean conversion is exact or rejected (DESIGN 4/C04)."""
from runner import Ob
from props.common import run_with

NEEDS_LEXER = False

FUNCS = ["cfg_setopt (CFGT_INT/CFGT_FLOAT/CFGT_BOOL branches)", "cfg_parse_boolean", "cfg_opt_setmulti",
         "cfg_addval", "cfg_free_value", "cfg_error"]


def build_obs(tier, tables=None):
    obs = []
    ntoks = [4] if tier == "quick" else [4, 6]
    for n in ntoks:
        uw = max(n + 4, 10)
        obs.append(Ob("int-scalar-n%d" % n, "c04_conv.c", ["-DMODE=1", "-DNTOK=%d" % n], unwind=uw, family="c04"))
        obs.append(Ob("int-list-n%d" % n, "c04_conv.c", ["-DMODE=2", "-DNTOK=%d" % n], unwind=uw, family="c04"))
        obs.append(Ob("int-setmulti-n%d" % n, "c04_conv.c", ["-DMODE=3", "-DNTOK=%d" % n], unwind=uw, family="c04"))
        obs.append(Ob("float-scalar-n%d" % n, "c04_conv.c", ["-DMODE=5", "-DNTOK=%d" % n], unwind=uw, family="c04"))
    for n in ([5] if tier == "quick" else [5, 6]):
        obs.append(Ob("bool-scalar-n%d" % n, "c04_conv.c", ["-DMODE=4", "-DNTOK=%d" % n], unwind=n + 4, family="c04"))
    # shaped boundary tokens around LONG_MIN / LONG_MAX: prefix + symbolic digits of the radix
    shaped = [("hex16", '0x', 16), ("hex17", '0x', 17), ("dec15+4", '922337203685477', 4), ("decneg15+4", '-922337203685477', 4),
              ("decpos+6", '+', 6), ("dec16+3", '9223372036854775', 3), ("dec17+2", '92233720368547758', 2), ("oct22", '0', 22), ("bin6", '0b', 6)]
    if tier != "quick":
        shaped += [("dec19", '', 19), ("decneg19", '-', 19), ("oct23", '0', 23), ("bin64", '0b', 64), ("bin63", '0b', 63)]
    # 19/20 fully symbolic decimal digits: MiniSat does not finish in 900 s, kissat needs ~40 s
    kis = [("dec19", '', 19), ("decneg19", '-', 19)]
    shaped = [x for x in shaped if x[0] not in ("dec19", "decneg19")]
    if tier != "quick":
        kis += [("dec20", '', 20), ("decneg20", '-', 20)]
        shaped = [x for x in shaped if x[0] not in ("dec20", "decneg20")]
    for name, pre, nd in shaped:
        obs.append(Ob("int-boundary-" + name, "c04_conv.c",
                      ["-DMODE=6", '-DPREFIX="%s"' % pre, "-DNDIG=%d" % nd], unwind=len(pre) + nd + 4,
                      family="c04", need_witness=True))
    for name, pre, nd in kis:
        obs.append(Ob("int-boundary-" + name, "c04_conv.c",
                      ["-DMODE=6", '-DPREFIX="%s"' % pre, "-DNDIG=%d" % nd], unwind=len(pre) + nd + 4,
                      family="c04", need_witness=True, flags=["--external-sat-solver", "kissat"], timeout=600 if tier == "quick" else 1500,
                      params={"sat_back_end": "kissat"}))
    return obs


def run(tier, seed):
    return run_with(
        "C04", tier, seed, build_obs, functions=FUNCS,
        bounds="fully symbolic tokens of <=4 (quick) / <=6 bytes, every byte value; shaped boundary tokens: fixed prefix + up to 23 (64 for 0b) symbolic digits of the selected radix; ambient errno any int; previous value any long/double",
        assumptions=[
            "strtol is the glibc-2.36 model in stubs/libc_models.h (no binary prefix, never clears errno)",
            "strtod is a contract stub: arbitrary end pointer within the token, arbitrary value, may report ERANGE; float numeral grammar itself is outside the claim",
            "three-valued oracle: tokens with white space, a sign not at position 0, a sign before a leading 0, upper-case 0X/0B or a doubled 0x prefix are GREY (only errno-independence and no-effect-on-reject are demanded)",
            "allocation never fails (--no-malloc-may-fail); C18 covers failure",
        ])

MANIFEST = {
    "text": "Bounded exhaustive (SAT) check of the real cfg_setopt()/cfg_parse_boolean()/cfg_opt_setmulti() conversion code against a three-valued reference grammar for every token of <=4 (quick) / <=6 bytes, for every ambient errno, plus shaped boundary numerals around LONG_MIN/LONG_MAX in all four radixes; conversion is a pure leaf so a bounded-exhaustive solver verdict is the right level.",
    "note": "strtol = hand-written glibc-2.36 model; strtod = contract stub (float numeral grammar not claimed); allocation never fails; tokens longer than the bound only through the shaped families.",
}
