"""Obligations of harness/get_step.c (the observation layer: readers vs stored state), shared by C01 and C09."""
from runner import Ob

KINDS = {"int": 1, "intlist": 2, "str": 3, "strlist": 4, "bool": 5, "floatlist": 6, "sect": 7, "secm": 8, "sec": 9, "ptrlist": 10, "boollist": 11, "float": 12}
SCALAR = ("int", "str", "bool", "float", "sec")
SIMPLE_OK = ("int",)  # the other members of the cfg_simple_t union are read back through a byte extract under CBMC 6.11 and lose the pointer (spurious); integers go through the first member


def get_obs(prefix, chk, tier):
    obs = []
    for kind, k in KINDS.items():
        nvs = (0, 1) if kind in SCALAR else ((0, 2, 3) if tier == "quick" else (0, 1, 2, 3))
        for nv in nvs:
            obs.append(Ob("%s-get-%s-nv%d" % (prefix, kind, nv), "get_step.c", ["-D" + chk, "-DKIND=%d" % k, "-DNV=%d" % nv], unwind=6, checks="std",
                          params={"reader_of": kind, "values_held": nv, "index": "symbolic (all 2^32)"},
                          must_reach=("end of harness",)))
        if kind in SIMPLE_OK:
            obs.append(Ob("%s-get-%s-simple" % (prefix, kind), "get_step.c", ["-D" + chk, "-DKIND=%d" % k, "-DNV=0", "-DSIMPLE=1"], unwind=6, checks="std",
                          params={"reader_of": kind, "values_held": "0 (value lives in the application's variable)", "index": "symbolic (all 2^32)"}))
    return obs
