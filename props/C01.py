"""C01 - parsed configuration equals the reference meaning of the text (DESIGN 4/C01)."""
from props.common import run_with
from props.parsecommon import parse_step_obs
from runner import Ob

NEEDS_LEXER = False
FUNCS = ["cfg_parse_internal (loop body, states 0-9)", "cfg_setopt", "cfg_addval", "cfg_free_value", "cfg_free", "cfg_addopt", "cfg_getopt/cfg_getopt_secidx (leaf lookup)",
         "cfg_getopt_leaf", "cfg_handle_deprecated", "call_function", "cfg_opt_setcomment", "cfg_dupopt_array", "cfg_init_defaults"]


def build_obs(tier, tables=None):
    obs = parse_step_obs(["CHK_C01"], "c01", states=range(0, 10), callbacks=True, tier=tier)
    obs.append(Ob("c01-init-defaults", "init_step.c", [], unwind=10, checks="none", must_reach=("end of harness",), timeout=300,
                  params={"what": "cfg_init_defaults() on int/str/bool/float/no-default/list/single section/multi section declarations, default values symbolic"}))
    # "holds exactly the values the text denotes": the conversion of value tokens itself (shared with C04),
    # short tokens of every shape and the numerals around LONG_MIN / LONG_MAX
    import props.C04 as C04
    obs += [o for o in C04.build_obs(tier) if o.key in ("int-scalar-n4", "int-list-n4", "int-boundary-decneg15+4", "int-boundary-dec15+4", "int-boundary-hex16", "bool-scalar-n5")]
    if tier != "quick":
        obs += [o for o in parse_step_obs(["CHK_C01"], "c01n3", states=range(0, 10), callbacks=False, tier=tier, ntok=3)]
    # the observation layer: 'every option read back through the getters holds exactly the values': readers vs stored state
    obs.append(Ob("c01-init-section-flags", "alloc_step.c", ["-DMODE=11", "-DNV=1", "-DFAIL_AT=-1", "-DINIT_SEC"], unwind=8, checks="none", must_reach=("end of harness", "success path"), timeout=300,
                  params={"function": "cfg_init", "schema": "int + single section", "context_flags": "NOCASE|IGNORE_UNKNOWN"}))
    from props.parsecommon import _ob, pathname_obs
    obs.append(_ob("c01", ["CHK_C01"], 5, "SECKV", 0, 0, 0, extra=("KV_SUBOPTS",)))  # free-form section with declared sub-options
    obs += pathname_obs(["CHK_C01"], "c01")  # item names that are path keys ("c|X")
    from props.getcommon import get_obs
    obs += get_obs("c01", "CHK_C01", tier)
    return obs


def run(tier, seed):
    return run_with(
        "C01", tier, seed, build_obs, functions=FUNCS,
        bounds="(readers: every public getter, by option and by name, on an option of each kind holding 0-3 symbolic values, index symbolic over all 2^32 values - get_step.c) one token per obligation from a harness-built valid state: parser state 0-9 x option kind (int, str, bool, float, int list, str list, ptr+callbacks, section single/multi/titled/unique titles, function, deprecated, deprecated+drop, free-form section) x 0-2 existing values/instances x context flags (none, NOCASE, IGNORE_UNKNOWN, COMMENTS) x nesting level 0/1; symbolic: token kind (all 11), token text (2 bytes, 3 thorough), stored values, RESET/MODIFIED bits, num_values, pending annotation, callback verdicts",
        assumptions=[
            "step lemma only: whole-text equivalence follows by induction over the token sequence and nesting depth (paper argument); tokenisation is C03's claim",
            "the lexer is a stub that returns one symbolic token and serves nested bodies as empty; nested non-empty bodies are the same lemma one level deeper",
            "option names containing '|' or '=' (resolved as paths, C11) are excluded from the token alphabet",
            "titles of existing section instances are concrete ('A','B'), the new title is a concrete parameter (match / case variant / fresh)",
            "realloc/reallocarray modelled as element-wise copies, strdup/strndup with a fixed 8-byte capacity (functional claim only; memory safety of these copies is C02's claim)",
            "strtod is a contract stub; integer/boolean conversion classes are coarse here (C04 decides conversions)",
            "list defaults given as text (def.parsed) and simple_value options are outside the claim",
        ])


MANIFEST = {
    "text": "Each (parser state, option kind, flag combination) of the real cfg_parse_internal()/cfg_setopt() code is executed for one symbolic token from a constructed valid state and compared with a reference transition function of the configuration grammar and store ('=' replaces, '+=' appends, repeated scalar keeps last, multi sections accumulate, repeated title replaces in place / is rejected, single section merges, free-form keys, deprecated/drop, defaults of new instances). SAT verdict per obligation; whole parses by induction. The getters used for reading back are themselves checked against the stored state for every index (get_step.c); item names that are path keys and free-form sections with declared sub-options have their own step obligations.",
    "note": "One-step lemma from harness-built states through the guarded LIBCONFUSE_VERIF hook; stub lexer; concrete control (state, kind, title match, level), symbolic data; allocation never fails.",
}
