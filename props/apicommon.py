"""Obligation table for the API-step family (harness/api_step.c): C09, C10 (and the C14 veto, C07 bulk set)."""
from runner import Ob

KI = dict(INT=1, INTLIST=2, STR=3, STRLIST=4, BOOL=5, FLOATLIST=6, SECT=7, SECM=8, SEC=9)
OP = dict(SETN=1, WRONGTYPE=2, SETLIST=3, ADDLIST=4, SETMULTI=5, ADDTSEC=6, RMNSEC=7, RMTSEC=8, SETOPT_TEXT=9, SETNINT_VETO=10, SETNSTR_VETO=11, SETNFLOAT_VETO=12, SIMPLE_SET=13)


def _ob(tag, op, kind, nv, n=1, extra=(), checks="none", chk=()):
    defs = ["-D" + c for c in chk] + ["-DOP=%d" % OP[op], "-DKIND=%d" % KI[kind], "-DNV=%d" % nv, "-DN=%d" % n] + ["-D" + e for e in extra]
    key = "%s-%s-%s-nv%d-n%d" % (tag, op.lower(), kind.lower(), nv, n) + "".join("-" + e.lower().replace("newtitle=", "t").replace("'", "") for e in extra)
    return Ob(key, "api_step.c", defs, unwind=6, checks=checks, family="apistep", must_reach=("end of harness",),
              params={"call": op, "option_kind": kind, "values_held": nv, "bulk_arguments": n, "extras": list(extra)})


def api_obs(tag, chk, ops=None, checks="none", tier="quick"):
    obs = []
    def add(op, *a, **kw):
        if ops is None or op in ops:
            obs.append(_ob(tag, op, *a, checks=checks, chk=chk, **kw))
    for kind, nvs in (("INT", (0, 1)), ("STR", (0, 1)), ("BOOL", (1,)), ("INTLIST", (0, 1, 3)), ("STRLIST", (0, 2)), ("FLOATLIST", (2,))):
        for nv in nvs:
            add("SETN", kind, nv)
            add("WRONGTYPE", kind, nv)
    add("WRONGTYPE", "SECM", 2)
    for kind, nvs in (("INTLIST", (0, 2)), ("STRLIST", (0, 2)), ("INT", (1,))):
        for nv in nvs:
            for n in (0, 1, 2):
                add("SETLIST", kind, nv, n)
                add("ADDLIST", kind, nv, n)
    for kind, nvs in (("INTLIST", (0, 2)), ("STRLIST", (1,)), ("INT", (1,)), ("STR", (1,))):
        for nv in nvs:
            for n in (1, 2, 3):
                add("SETMULTI", kind, nv, n)
    add("ADDTSEC", "SECT", 0, extra=("NEWTITLE='D'",))
    add("ADDTSEC", "SECT", 1, extra=("NEWTITLE='A'",))
    add("ADDTSEC", "SECT", 1, extra=("NEWTITLE='a'",))
    add("ADDTSEC", "SECT", 3, extra=("NEWTITLE='D'",))
    add("ADDTSEC", "SECT", 3, extra=("NEWTITLE='B'",))
    add("ADDTSEC", "SECT", 3, extra=("NEWTITLE='C'",))
    add("ADDTSEC", "SECM", 1)
    # case-insensitive context: a title that differs only in letter case names the existing section
    add("ADDTSEC", "SECT", 2, extra=("NEWTITLE='b'", "CTXF=4"))
    add("ADDTSEC", "SECT", 2, extra=("NEWTITLE='D'", "CTXF=4"))
    add("RMTSEC", "SECT", 2, extra=("CTXF=4",))
    # wrong type: a titled-section add on a scalar / list option (the title text would convert as a value)
    add("ADDTSEC", "INT", 1, extra=("NEWTITLE='5'",))
    add("ADDTSEC", "STR", 1, extra=("NEWTITLE='5'",))
    add("ADDTSEC", "INTLIST", 2, extra=("NEWTITLE='5'",))
    for kind in ("SECT", "SECM"):
        for nv in (0, 1, 3):
            add("RMNSEC", kind, nv)
        add("RMNSEC", kind, 3, extra=("WITH_PATH",))
    add("RMNSEC", "SEC", 1)
    add("RMNSEC", "INT", 1)
    for nv in (0, 2, 3):
        add("RMTSEC", "SECT", nv)
    add("RMTSEC", "SECT", 3, extra=("WITH_PATH",))
    add("RMTSEC", "SECM", 2)
    add("SETOPT_TEXT", "INT", 1)
    add("SETOPT_TEXT", "BOOL", 1)
    add("SETOPT_TEXT", "INT", 1, extra=("EXCL_RESET",))
    add("SETOPT_TEXT", "BOOL", 1, extra=("EXCL_RESET",))
    # set-from-text on an emptied scalar and on lists: a refused text must not leave a new (zero) element behind
    # or drop the defaults the list still holds
    add("SETOPT_TEXT", "INT", 0)
    add("SETOPT_TEXT", "BOOL", 0)
    for nv in (0, 1, 3):
        add("SETOPT_TEXT", "INTLIST", nv)
    add("SETNINT_VETO", "INT", 1)
    add("SETNINT_VETO", "INT", 0)
    # the veto of the string and float setters, at every index (replace, append, illegal), NULL string included
    add("SETNSTR_VETO", "STR", 1)
    add("SETNSTR_VETO", "STRLIST", 0)
    add("SETNSTR_VETO", "STRLIST", 2)
    add("SETNFLOAT_VETO", "FLOATLIST", 2)
    # the index-less by-name wrappers (cfg_setint / cfg_setstr / cfg_setfloat) are the same update: same veto
    add("SIMPLE_SET", "INT", 0)
    add("SETNINT_VETO", "INT", 1, extra=("VIA_WRAPPER",))
    add("SETNSTR_VETO", "STR", 1, extra=("VIA_WRAPPER",))
    add("SETNSTR_VETO", "STRLIST", 2, extra=("VIA_WRAPPER",))
    add("SETNFLOAT_VETO", "FLOATLIST", 2, extra=("VIA_WRAPPER",))
    return obs
