"""C10 - a rejected update leaves the option exactly as it was (DESIGN 4/C10)."""
from props.common import run_with
from props.apicommon import api_obs

NEEDS_LEXER = False
FUNCS = ["cfg_opt_setmulti ('ouch, revert')", "cfg_setopt (convert before store)", "cfg_setnint (validcb2 veto)", "cfg_opt_getval (index check)", "cfg_opt_setn* (type checks)",
         "cfg_addtsec (existing title)", "cfg_opt_rmnsec / cfg_opt_rmtsec (missing instance)", "cfg_setlist/cfg_addlist (non-list)"]


def build_obs(tier, tables=None):
    return api_obs("c10", ["CHK_C10"], tier=tier)


def run(tier, seed):
    return run_with(
        "C10", tier, seed, build_obs, functions=FUNCS,
        bounds="every refusing call (bulk set with the k-th of 1-3 elements unconvertible, vetoed by-name setter, wrong-type setter, index >= 1 on a scalar, add of an existing title, removal of a missing instance, list call on a non-list, set-from-text with unconvertible text) x option kind x 0-3 values; symbolic values, RESET/MODIFIED bits, annotation present or not, offending position",
        assumptions=[
            "snapshot = value vector pointer, cell pointers, contents, count, order, annotation pointer and text, RESET/MODIFIED bits",
            "set-from-text is exercised on scalars holding a value, emptied scalars and lists of 0/1/3 values; the two defects found here (defaults dropped / zero element left by a refused text) are repaired, see known_findings.txt; the -DEXCL_RESET twins are kept as plain extra obligations",
        ])


MANIFEST = {
    "text": "For every refusing call the real code is run from an arbitrary valid option state and the option is compared bit-for-bit with a snapshot taken before the call (values, cells, count, order, annotation pointer and text, default/modified markers), together with the failure return.",
    "note": "One-call lemma; states built in the harness.",
}
