"""C17 - file names resolve deterministically via search path and tilde (DESIGN 4/C17)."""
from runner import Ob
from props.common import run_with
from props.parsecommon import parse_step_obs

NEEDS_LEXER = True
FUNCS = ["cfg_add_searchpath", "cfg_searchpath", "cfg_make_fullpath", "cfg_tilde_expand", "cfg_parse_internal state 5 (section borrows the search path)"]


def build_obs(tier, tables=None, with_lexer=True):
    obs = []
    for nd in (1, 2, 3):
        obs.append(Ob("searchpath-rel-%ddirs" % nd, "path_step.c", ["-DMODE=1", "-DNDIRS=%d" % nd], unwind=8, checks="std", must_reach=("end of harness", "found", "not found")))
    obs.append(Ob("searchpath-relslash-2dirs", "path_step.c", ["-DMODE=1", "-DNDIRS=2", "-DREL_SLASH"], unwind=9, checks="std", must_reach=("end of harness", "found", "not found")))
    obs.append(Ob("searchpath-abs-2dirs", "path_step.c", ["-DMODE=1", "-DNDIRS=2", "-DABSOLUTE"], unwind=8, checks="std", must_reach=("end of harness", "found", "not found")))
    for nn in ((5,) if tier == "quick" else (5, 7)):
        obs.append(Ob("tilde-n%d" % nn, "path_step.c", ["-DMODE=2", "-DNNAME=%d" % nn], unwind=nn + 4, checks="full", must_reach=("end of harness", "plain", "self", "user")))
    # the parser hands the context's search path to every section it enters (include() resolves through it)
    obs += [o for o in parse_step_obs(["CHK_C17"], "c17sec", states=[5], tier=tier, extra_all=("WITH_PATH=1",)) if "validcb" not in o.key]
    # the same expansion with one allocation of the call failing (symbolic index): failure or the expanded name, never the raw one
    from props.C18 import alloc_obs
    obs += alloc_obs("c17fault", modes=("TILDE",))
    # "top-level parse and include use the same resolution": include() asks the search path when there is one, tilde
    # expansion otherwise (the real cfg_lexer_include() on the scanner derived from lexer.l)
    if with_lexer:
        from props.inclcommon import push_obs
        obs += [o for o in push_obs("c17") if "-d0-" in o.key or "-d1-" in o.key]
    return obs


def run(tier, seed):
    return run_with(
        "C17", tier, seed, build_obs, needs_lexer=True, functions=FUNCS + ["cfg_lexer_include (resolution of the target)"],
        bounds="search path of 1-3 directories added through the real cfg_add_searchpath(); file name 1-2 symbolic bytes (relative or absolute); stat() answers {missing, directory, regular} symbolic per candidate; tilde expansion on every name of <= 5 (7) bytes with getpwnam/getpwuid stubs (account known or not, symbolic); parser state 5: a section entered by the parser borrows the context's search path",
        assumptions=[
            "stat/getpwnam/getpwuid/geteuid are stubs (answers symbolic, arguments recorded); the real file system and passwd database are outside the claim",
            "the name handed to getpwnam() is walked under CBMC's pointer checks: a missing terminator is reported as an out-of-bounds read",
            "include() resolves its target through cfg_searchpath() when the context has a search path and through cfg_tilde_expand() otherwise (checked here on the real cfg_lexer_include() with recording stubs); cfg_parse() is the same two-way choice (read, not machine-checked)",
        ])


MANIFEST = {
    "text": "The real search-path functions run with a symbolic stat() answer table: the result must be <first-added directory holding a regular file>/<name> as a fresh string, absolute names bypass the list, none -> NULL. The real cfg_tilde_expand() runs on every short name: the account looked up is exactly the text between ~ and the first slash (terminated inside its buffer), the result is home+rest or an unchanged copy. include() is shown to choose search path vs tilde expansion on the real cfg_lexer_include(); tilde expansion is also run with one failing allocation; rejected candidates of a look-up are released.",
    "note": "File system and passwd database replaced by recording stubs with symbolic answers.",
}
