"""C17 - file names resolve deterministically via search path and tilde (DESIGN 4/C17)."""
from runner import Ob
from props.common import run_with
from props.parsecommon import parse_step_obs

NEEDS_LEXER = False
FUNCS = ["cfg_add_searchpath", "cfg_searchpath", "cfg_make_fullpath", "cfg_tilde_expand", "cfg_parse_internal state 5 (section borrows the search path)"]


def build_obs(tier, tables=None):
    obs = []
    for nd in (1, 2, 3):
        obs.append(Ob("searchpath-rel-%ddirs" % nd, "path_step.c", ["-DMODE=1", "-DNDIRS=%d" % nd], unwind=8, checks="std", must_reach=("end of harness", "found", "not found")))
    obs.append(Ob("searchpath-relslash-2dirs", "path_step.c", ["-DMODE=1", "-DNDIRS=2", "-DREL_SLASH"], unwind=9, checks="std", must_reach=("end of harness", "found", "not found")))
    obs.append(Ob("searchpath-abs-2dirs", "path_step.c", ["-DMODE=1", "-DNDIRS=2", "-DABSOLUTE"], unwind=8, checks="std", must_reach=("end of harness", "found", "not found")))
    for nn in ((5,) if tier == "quick" else (5, 7)):
        obs.append(Ob("tilde-n%d" % nn, "path_step.c", ["-DMODE=2", "-DNNAME=%d" % nn], unwind=nn + 4, checks="full", must_reach=("end of harness", "plain", "self", "user")))
    # the parser hands the context's search path to every section it enters (include() resolves through it)
    obs += [o for o in parse_step_obs(["CHK_C17"], "c17sec", states=[5], tier=tier, extra_all=("WITH_PATH=1",)) if "validcb" not in o.key]
    return obs


def run(tier, seed):
    return run_with(
        "C17", tier, seed, build_obs, functions=FUNCS,
        bounds="search path of 1-3 directories added through the real cfg_add_searchpath(); file name 1-2 symbolic bytes (relative or absolute); stat() answers {missing, directory, regular} symbolic per candidate; tilde expansion on every name of <= 5 (7) bytes with getpwnam/getpwuid stubs (account known or not, symbolic); parser state 5: a section entered by the parser borrows the context's search path",
        assumptions=[
            "stat/getpwnam/getpwuid/geteuid are stubs (answers symbolic, arguments recorded); the real file system and passwd database are outside the claim",
            "the name handed to getpwnam() is walked under CBMC's pointer checks: a missing terminator is reported as an out-of-bounds read",
            "include() and cfg_parse() call cfg_searchpath()/cfg_tilde_expand() directly (checked under C13)",
        ])


MANIFEST = {
    "text": "The real search-path functions run with a symbolic stat() answer table: the result must be <first-added directory holding a regular file>/<name> as a fresh string, absolute names bypass the list, none -> NULL. The real cfg_tilde_expand() runs on every short name: the account looked up is exactly the text between ~ and the first slash (terminated inside its buffer), the result is home+rest or an unchanged copy.",
    "note": "File system and passwd database replaced by recording stubs with symbolic answers.",
}
