"""C14 - user callbacks see exactly the parsed items, and their verdict binds (DESIGN 4/C14)."""
from props.common import run_with
from props.parsecommon import parse_step_obs
from props.apicommon import api_obs
from runner import Ob

NEEDS_LEXER = False
FUNCS = ["cfg_parse_internal states 2,3,4,5,8,9", "cfg_setopt (parsecb dispatch)", "call_function", "cfg_setnint/cfg_setnfloat/cfg_setnstr (validcb2)", "cfg_set_validate_func", "cfg_set_validate_func2", "cfg_getopt_array"]


def build_obs(tier, tables=None):
    obs = [o for o in parse_step_obs(["CHK_C14", "CHK_C01"], "c14", states=[2, 3, 4, 5, 8, 9], callbacks=True, tier=tier)
           if "validcb" in o.key or "parsecb" in o.key or "func" in o.key]
    # pre-set validation callback of the by-name setters: veto and rewrite
    obs += api_obs("c14", ["CHK_C14", "CHK_C10"], ops=("SETNINT_VETO", "SETNSTR_VETO", "SETNFLOAT_VETO"), tier=tier)
    # registration by schema path
    obs.append(Ob("c14-register-path", "reg_step.c", [], unwind=3, unwindset=["cfg_getopt_array.0:3", "cfg_getopt_array.1:4", "strcpy.0:6", "strlen.0:6", "strcmp.0:5", "strcspn.0:5", "strcspn.1:3", "strspn.0:5", "strspn.1:3", "v_strndup8.0:9", "alloc_values.0:3", "main.0:5"], checks="none", must_reach=("end of harness", "hit", "miss")))
    obs.append(Ob("c14-register-plain", "reg_step.c", ["-DPLAIN"], unwind=3, unwindset=["cfg_getopt_array.0:3", "cfg_getopt_array.1:4", "strcpy.0:6", "strlen.0:6", "strcmp.0:5", "strcspn.0:5", "strcspn.1:3", "strspn.0:5", "strspn.1:3", "v_strndup8.0:9", "alloc_values.0:3", "main.0:5"], checks="none", must_reach=("end of harness", "hit", "miss")))
    return obs


def run(tier, seed):
    return run_with(
        "C14", tier, seed, build_obs, functions=FUNCS,
        bounds="cfg_setnint() with a symbolic veto/rewrite verdict; cfg_set_validate_func(2)() by plain name and by section|option path with a symbolic name byte, with instances already existing; parser steps in states 2,3,4,5,8,9 on options carrying recording callbacks (value-parsing, validation, function) whose verdicts are symbolic ints; 0-2 collected arguments; symbolic token kind/text",
        assumptions=["which invocation fails in a long text follows by induction over steps", "callbacks are recording stubs with symbolic return values"])


MANIFEST = {
    "text": "Parser steps on options with recording callbacks: the value-parsing callback runs once with exactly the token text and its product is stored, validation runs once after the store and before any further token, function callbacks get exactly the collected arguments in order, and any non-zero verdict makes the step fail.",
    "note": "One-step lemma through the guarded hook; callbacks are stubs with symbolic verdicts.",
}
