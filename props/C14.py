"""C14 - user callbacks see exactly the parsed items, and their verdict binds (DESIGN 4/C14)."""
from props.common import run_with
from props.parsecommon import parse_step_obs

NEEDS_LEXER = False
FUNCS = ["cfg_parse_internal states 2,3,4,5,8,9", "cfg_setopt (parsecb dispatch)", "call_function", "cfg_setnint/cfg_setnfloat/cfg_setnstr (validcb2)", "cfg_set_validate_func", "cfg_set_validate_func2", "cfg_getopt_array"]


def build_obs(tier, tables=None):
    obs = [o for o in parse_step_obs(["CHK_C14", "CHK_C01"], "c14", states=[2, 3, 4, 5, 8, 9], callbacks=True, tier=tier)
           if "validcb" in o.key or "parsecb" in o.key or "func" in o.key]
    return obs


def run(tier, seed):
    return run_with(
        "C14", tier, seed, build_obs, functions=FUNCS,
        bounds="parser steps in states 2,3,4,5,8,9 on options carrying recording callbacks (value-parsing, validation, function) whose verdicts are symbolic ints; 0-2 collected arguments; symbolic token kind/text",
        assumptions=["which invocation fails in a long text follows by induction over steps", "callbacks are recording stubs with symbolic return values"])


MANIFEST = {
    "text": "Parser steps on options with recording callbacks: the value-parsing callback runs once with exactly the token text and its product is stored, validation runs once after the store and before any further token, function callbacks get exactly the collected arguments in order, and any non-zero verdict makes the step fail.",
    "note": "One-step lemma through the guarded hook; callbacks are stubs with symbolic verdicts.",
}
