"""C02 - no input text can corrupt memory, hang or kill the host process (DESIGN 4/C02)."""
from props.common import run_with
from props.parsecommon import parse_step_obs
from props.lexcommon import lex_step_obs
from props.inclcommon import push_obs, pop_obs

NEEDS_LEXER = True
FUNCS = ["every rule action of lexer.l", "qputc (growth)", "qput", "qbeg", "qend", "qstr", "trim_whitespace", "cfg_parse_internal (states 0-15)", "cfg_setopt", "cfg_addval",
         "cfg_free_value", "cfg_free", "cfg_addopt", "call_function", "cfg_opt_setcomment", "cfg_dupopt_array", "cfg_init_defaults"]


def build_obs(tier, tables):
    obs = lex_step_obs(tables, ["CHK_C02"], tier, "c02lex", windows=[4] if tier == "quick" else [4, 6], checks="full")
    # exact-size allocation models everywhere except state 0 (the path resolver inside cfg_getopt() with
    # symbolic allocation sizes exhausts memory; its copies are checked as leaves under C11)
    obs += parse_step_obs(["CHK_C02"], "c02par", states=range(1, 16), callbacks=True, checks="std", tier=tier, extra_all=("EXACT_ALLOC",))
    obs += parse_step_obs(["CHK_C02"], "c02par", states=[0], callbacks=True, checks="std", tier=tier)
    # stack: is the recursion into a nested (declared or skipped) section still taken at depth 10^5?
    from props.parsecommon import _ob, F
    # sections only borrow the search path: replacing / re-entering them must not release it (use after free)
    extra = [o for o in parse_step_obs(["CHK_C02", "CHK_C07"], "c02path", states=[5], tier=tier, extra_all=("WITH_PATH=2",)) if "sect" in o.key or "secm" in o.key]
    for o in extra:
        o.flags = ["--pointer-check"]
    obs += extra
    # include stack bounds (depth 0/1/9/10) and end-of-source handling under the memory checks
    inc = push_obs("c02") + pop_obs("c02")
    for o in inc:
        o.checks = "full"
    obs += inc
    from runner import Ob
    # the REAL flex refill function with an unreadable source (directory / special file): can the process exit?
    obs.append(Ob("c02-flex-unreadable-input", "flex_input.c", [], unwind=6, checks="none", must_reach=("end of harness",),
                  params={"what": "real yy_get_next_buffer() of the flex output with fread() == 0 and ferror() set"}))
    obs.append(_ob("c02depth", ["CHK_C02"], 5, "SECM", 0, 0, 100000, checks="none"))
    obs.append(_ob("c02depth", ["CHK_C02"], 12, "INT", 1, F["IGNORE"], 100000, checks="none"))
    return obs


def run(tier, seed):
    return run_with(
        "C02", tier, seed, build_obs, needs_lexer=True, functions=FUNCS,
        bounds="lexer: one step of every rule action x start condition x scratch variant (unallocated, 2/31/32 of 32 bytes used) on a window of 4 (6) arbitrary bytes with all CBMC memory checks (bounds, pointer, overflow, shift) plus: nothing reaches the echo rule, >= 1 byte consumed, token text non-NULL and terminated, scratch invariants; parser: one symbolic token in every state 0-15 x option kind with pointer/bounds checks and exact-size allocation models",
        assumptions=[
            "termination = every scanner step consumes >= 1 byte and every parser step consumes exactly one token (induction on input length)",
            "uninitialised reads are not detected by CBMC in general; real stack depth is not measured (there is no nesting limit: see DESIGN known findings); flex's refill code/NUL bytes/streams are outside the claim",
            "post-states satisfy the representation invariant only as far as the assertions state it",
        ])


MANIFEST = {
    "text": "All scanner rule actions and all parser states are executed for one step on symbolic input with CBMC's memory-safety instrumentation on (bounds, pointer validity, overflow), plus explicit assertions: no byte reaches stdout through flex's echo rule, progress, token texts are non-NULL and terminated, scratch-buffer invariants preserved.",
    "note": "Bounded step lemmas; no depth guard exists in the parser (recursion per nested section), the exit() path of flex on unreadable input is outside the flattened scanner.",
}
