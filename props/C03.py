"""C03 - string, escape, environment and comment lexing decode as specified (DESIGN 4/C03)."""
from props.common import run_with
from props.lexcommon import lex_step_obs
from props.inclcommon import pop_obs

NEEDS_LEXER = True
FUNCS = ["every rule action of lexer.l (INITIAL, comment, dq_str, sq_str, <<EOF>>)", "qputc", "qput", "qbeg", "qend", "qstr", "trim_whitespace"]


def build_obs(tier, tables):
    obs = lex_step_obs(tables, ["CHK_C03", "CHK_C15"], tier, "c03", windows=[4], checks="none")
    # longer window (room for ${NAME:-default}, \\x41, 4-digit escapes, longer words) on one scratch variant
    obs += lex_step_obs(tables, ["CHK_C03", "CHK_C15"], tier, "c03", windows=[7] if tier == "quick" else [7, 9], checks="none",
                        variants=("fill2", "fill5"), envw=2 if tier == "quick" else 3)
    if tier != "quick":
        obs += lex_step_obs(tables, ["CHK_C03", "CHK_C15"], tier, "c03", windows=[6], checks="none")
    # an unterminated single-quoted string is rejected also when it ends an included file
    obs += [o for o in pop_obs("c03") if "-sc3-" in o.key]
    return obs


def run(tier, seed):
    return run_with(
        "C03", tier, seed, build_obs, needs_lexer=True, functions=FUNCS,
        bounds="one rule-match step per obligation (rule action x start condition x scratch-buffer variant); window of 4 bytes on every scratch variant and 7 (thorough: 9) bytes on one variant, every byte value incl. NUL = end of input; environment value <= 2 (3) bytes, set or unset; scratch buffer unallocated or capacity 32 holding 2 / 31 / 32 arbitrary bytes (5 in INITIAL)",
        assumptions=[
            "flex's buffer refill code, NUL bytes inside the input, and single rule matches longer than the window are outside the claim",
            "whole-literal decoding follows from the step lemma by induction on the literal's length (paper argument)",
            "reference decoder harness/lex_ref.h written from the property statement; ':' not followed by '-' inside ${...} is grey",
            "getenv is a one-variable model that records the name asked for; sscanf(%o/%x) modelled for <= 3 digits",
        ])


MANIFEST = {
    "text": "Every scanner rule action of every start condition is executed symbolically for one step on a window of arbitrary bytes and compared with a hand-written reference decoder (consumed bytes, decoded bytes, quoting context, token, diagnostics, environment lookup); one SAT query per rule action x start condition x scratch-buffer variant, table generated from the DFA of the current lexer.l. Whole literals follow by induction over steps.",
    "note": "Flattened scanner (flex's generic buffer skeleton replaced, validated against the real flex scanner on every run); window 4-9 bytes; environment = one symbolic variable; refill/NUL bytes/long matches outside the claim.",
}
