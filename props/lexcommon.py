"""Shared obligation tables for the lexer-step family (harness/lex_step.c).

One obligation = one rule action (or <<EOF>> action) of one start condition, from one scratch-buffer
variant, on a window of W arbitrary bytes.  The table is generated from the DFA that genflat.py
extracted from /repo's current lexer.l (which rule can fire in which start condition), so it is
exhaustive by construction: every scanning step executes exactly one of these actions (the
RULE_NONE obligation proves that nothing else can be selected)."""
from runner import Ob

SC_NAMES = {0: "initial", 1: "comment", 2: "dq", 3: "sq"}

# scratch-buffer variants per start condition: (tag, defs, max fill)
QS_VARIANTS = {
    0: [("null", ["-DQS=0"], 0), ("fill5", ["-DQS=1", "-DQIDX=5"], 5)],
    1: [("null", ["-DQS=0"], 0), ("fill2", ["-DQS=1", "-DQIDX=2"], 2), ("fill31", ["-DQS=1", "-DQIDX=31"], 31), ("fill32", ["-DQS=1", "-DQIDX=32"], 32)],
    2: [("null", ["-DQS=0"], 0), ("fill2", ["-DQS=1", "-DQIDX=2"], 2), ("fill31", ["-DQS=1", "-DQIDX=31"], 31), ("fill32", ["-DQS=1", "-DQIDX=32"], 32)],
    3: [("null", ["-DQS=0"], 0), ("fill2", ["-DQS=1", "-DQIDX=2"], 2), ("fill31", ["-DQS=1", "-DQIDX=31"], 31), ("fill32", ["-DQS=1", "-DQIDX=32"], 32)],
}


def lex_step_obs(tables, chk, tier, tag, windows=None, envw=2, checks="std", scs=(0, 1, 2, 3), rules=None,
                 variants=None, timeout=None):
    obs = []
    if windows is None:
        windows = [4] if tier == "quick" else [4, 6]
    eob = tables["eob"]
    for w in windows:
        for sc in scs:
            acts = [(r, "r%d" % r) for r in tables["reach"][str(sc)]] + [(eob + sc + 1, "eof")]
            for rule, rname in acts:
                if rules is not None and rule not in rules:
                    continue
                for vtag, vdefs, fill in QS_VARIANTS[sc]:
                    if variants is not None and vtag not in variants:
                        continue
                    n = fill + w + envw + 4
                    defs = ["-DSC=%d" % sc, "-DW=%d" % w, "-DENVW=%d" % envw, "-DRULE=%d" % rule] + vdefs + ["-D" + c for c in chk]
                    obs.append(Ob("%s-%s-%s-%s-w%d" % (tag, SC_NAMES[sc], rname, vtag, w), "lex_step.c", defs,
                                  unwind=max(w, envw, 3) + 4,
                                  unwindset=["pre_fill.0:34", "pre_fill.1:34", "pre_fill.2:34", "memcmp.0:%d" % (n + 2), "strlen.0:%d" % (n + 2),
                                             "strcmp.0:%d" % (n + 2),
                                             "trim_whitespace.0:%d" % n, "trim_whitespace.1:%d" % n] +
                                            ["check_post.%d:%d" % (k, max(n, 34)) for k in range(0, 12)],
                                  checks=checks, family="lexstep", timeout=timeout, must_reach=("oracle compared", "post-state checked"),
                                  params={"start_condition": SC_NAMES[sc], "rule_action": rname, "window_bytes": w, "scratch": vtag}))
            if rules is None:
                obs.append(Ob("%s-%s-complete-w%d" % (tag, SC_NAMES[sc], w), "lex_step.c",
                              ["-DSC=%d" % sc, "-DW=%d" % w, "-DENVW=%d" % envw, "-DQS=0", "-DRULE_NONE"] + ["-D" + c for c in chk],
                              unwind=max(w, envw, 3) + 4, checks="none", family="lexstep", need_witness=True, must_reach=("completeness checked",),
                              params={"start_condition": SC_NAMES[sc], "rule_action": "completeness", "window_bytes": w}))
    return obs
