"""C19 - print emits each unfiltered option once, in order, at its depth (DESIGN 4/C19)."""
from runner import Ob
from props.common import run_with

NEEDS_LEXER = False
FUNCS = ["cfg_print_indent", "cfg_print_pff_indent", "cfg_opt_print_pff_indent", "cfg_indent", "cfg_opt_nprint_var", "cfg_opt_set_print_func", "cfg_set_print_filter_func",
         "cfg_setopt (CFGT_SEC creation: no own filter)", "cfg_addtsec", "cfg_set_print_func (by name / path)"]


def build_obs(tier, tables=None):
    obs = []
    masks = [0, 0x1FF, 0x0A5] if tier == "quick" else [0, 0x1FF, 0x0A5, 0x15A, 0x004, 0x010]
    for hr in (0, 1):
        for hi in (0, 1):
            for m in masks:
                for ind in ((0,) if tier == "quick" else (0, 3)):
                    obs.append(Ob("print-root%d-inst%d-pf%03x-ind%d" % (hr, hi, m, ind), "print_step.c",
                                  ["-DHAS_ROOT=%d" % hr, "-DHAS_INST1=%d" % hi, "-DPFMASK=%d" % m, "-DINDENT0=%d" % ind], unwind=11, checks="none",
                                  params={"root_has_filter": hr, "instance_has_own_filter": hi, "print_callback_mask": m, "start_indent": ind}))
    # the instance with its own filter is the FIRST one: its later sibling falls back to the inherited filter
    for hr in (0, 1, 2):
        obs.append(Ob("print-root%d-ownfirst-pf000" % hr, "print_step.c", ["-DHAS_ROOT=%d" % hr, "-DHAS_INST1=1", "-DOWN_INST=0", "-DPFMASK=0", "-DINDENT0=%d" % (1 if hr == 2 else 0)], unwind=11, checks="none",
                      params={"root_has_filter": hr, "instance_has_own_filter": "first instance", "print_callback_mask": 0, "start_indent": 1 if hr == 2 else 0}))
    # inheritance at any depth: the recursive print function entered with an inherited filter (root = an
    # intermediate context without a filter of its own)
    for hi in (0, 1):
        for m in masks[:2]:
            obs.append(Ob("print-inherited-inst%d-pf%03x" % (hi, m), "print_step.c", ["-DHAS_ROOT=2", "-DHAS_INST1=%d" % hi, "-DPFMASK=%d" % m, "-DINDENT0=1"], unwind=11, checks="none",
                          params={"root_has_filter": "inherited (recursive entry)", "instance_has_own_filter": hi, "print_callback_mask": m, "start_indent": 1}))
    # a "simple" option keeps its value in the application's variable: it has a value and is printed as such
    obs.append(Ob("print-simple-int", "print_step.c", ["-DHAS_ROOT=1", "-DHAS_INST1=0", "-DPFMASK=0", "-DINDENT0=0", "-DSIMPLE_I"], unwind=11, checks="none",
                  params={"root_has_filter": 1, "instance_has_own_filter": 0, "print_callback_mask": 0, "start_indent": 0, "simple_value_option": "i"}))
    obs.append(Ob("print-create-no-own-filter", "print_create.c", [], unwind=6, checks="none"))
    # by-name registration of a print callback: installed on exactly the option the name / path addresses
    # (shaped symbolic paths and the stepwise reference of C11's harness)
    import copy
    import props.C11 as C11
    base = {o.key: o for o in C11.build_obs("thorough")}
    for key in ["path-fn1-N", "path-fn1-NIN", "path-fn1-NEQIN", "path-fn1-NEqqqIN"] + (["path-fn1-NININ", "path-fn1-NEqeqIN"] if tier != "quick" else []):
        o = copy.deepcopy(base[key])
        o.key = "print-register-" + key[len("path-fn1-"):]
        o.defs = ["-DFN=5" if d == "-DFN=1" else d for d in o.defs]
        o.params = dict(o.params, entry_point="cfg_set_print_func")
        obs.append(o)
    return obs


def run(tier, seed):
    return run_with(
        "C19", tier, seed, build_obs, functions=FUNCS,
        bounds="constructed two-level tree (int, unset string, int list of 2, multi section with 2 instances of {int, string (unset in one)}, function option); concrete per obligation: filter on the root yes/no, own filter on one instance yes/no, which options carry a print callback, start indent; symbolic: every filter answer of both filters (18 booleans)",
        assumptions=[
            "fprintf is an event logger keyed by format string and option-name pointer identity; formatted bytes are C05's claim",
            "constructed tree of depth 2; deeper nesting by induction: the recursive function cfg_print_pff_indent() is also entered directly with an inherited filter on a context without its own (checked step), so a filter reaches every level; a separate obligation shows that sections created by cfg_setopt()/cfg_addtsec() carry no filter of their own",
        ])


MANIFEST = {
    "text": "The real print functions run on a constructed tree with fprintf replaced by an event logger; for every assignment of the symbolic filter answers the log must show each accepted option exactly once, in declaration order, at its depth, between its section's brackets, commented out iff unset, formatted by its print callback iff it has one, with the effective filter = own or inherited. Registration of a print callback by name/path (cfg_set_print_func) is checked against stepwise navigation on shaped symbolic paths; the instance with its own filter is also the first of its siblings.",
    "note": "Concrete tree shape and filter presence per obligation, symbolic filter answers; event-level oracle (no bytes).",
}
