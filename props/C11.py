"""C11 - path lookups resolve like step-by-step navigation (DESIGN 4/C11)."""
from runner import Ob
from props.common import run_with

NEEDS_LEXER = False
FUNCS = ["cfg_getopt_array", "cfg_getopt_secidx", "parse_title", "cfg_opt_gettsecidx", "cfg_opt_getnsec", "cfg_getopt_leaf", "cfg_getopt", "cfg_getsec", "cfg_rmsec", "cfg_opt_rmnsec", "cfg_setint"]

# N name byte, Q unquoted qualifier byte, q quoted byte, e escaped byte (' or \), x byte after a bad backslash
SHAPES_OPT = ["N", "N|N", "N=Q|N", "N='q'|N", "N='e'|N", "N|N|N", "|N", "N|", "N||N", "=", "N=", "N=|N", "=N", "N='q|N", "N='\\\\x'|N", "N='q'N", "N=Q", "N=QQ|N", "N='\\\\e'|N", "N='qq'|N", "N|N=Q|N", "N|N=|N"]
SHAPES_SEC = ["N", "N=Q", "N='q'", "N|", "N|=", "N=", "N='q", "N=QQ", "N|N", "|N", "N='\\\\e'", "N='q'N", "N|N=Q", "N|N=", "N=Q|N=Q", "N|N='q"]


def ckey(s):
    return s.replace("|", "I").replace("=", "E").replace("'", "q").replace("\\", "b")


def build_obs(tier, tables=None):
    obs = []
    def add(fn, shape, cap=8):
        defs = ["-DFN=%d" % fn, '-DSHAPE="%s"' % shape] + (["-DCAP=%d" % cap] if cap != 8 else [])
        nseg = shape.count("|") + 1
        npar = max(2, shape.count("q") + shape.count("e") + shape.count("x") + 2, shape.count("D") + 4 if "D" in shape else 0)
        obs.append(Ob("path-fn%d-%s" % (fn, ckey(shape)), "path_res.c", defs, unwind=4,
                      unwindset=["cfg_getopt_secidx.0:%d" % (nseg + 1), "parse_title.0:%d" % npar] + ["ref_walk.%d:%d" % (k, len(shape) + 2) for k in range(0, 8)] +
                                ["v_strndup8.0:%d" % (cap + 1), "strcspn.0:%d" % (cap + 4), "strspn.0:%d" % (cap + 4), "strcspn.1:%d" % (cap + 4), "strspn.1:%d" % (cap + 4), "strlen.0:%d" % (cap + 4), "cfg_getopt_leaf.0:6", "ref_leaf.0:6", "main.0:%d" % max(10, len(shape) + 2), "strtol.0:%d" % (cap + 4), "strtol.1:%d" % (cap + 4), "main.1:6", "alloc_values.0:4",
                                 "strcpy.0:6", "memcmp.0:9", "strcmp.0:9", "v_memmove.0:4", "cfg_opt_gettsecidx.0:4"],
                      checks="none", must_reach=("end of harness",), timeout=300,
                      params={"entry_point": {1: "cfg_getopt", 2: "cfg_getsec", 3: "cfg_rmsec", 4: "cfg_setint"}[fn], "shape": shape}))
    # a ten-digit index qualifier (values beyond unsigned int: 4294967296 must not alias instance 0)
    add(2, "N=DDDDDDDDDD", cap=16)
    for sh in SHAPES_OPT:
        add(1, sh)
    for sh in SHAPES_SEC:
        add(2, sh)
    # cfg_rmsec()/cfg_setint() by path = the same resolver call followed by the single-level mutators
    # (cfg_opt_rmnsec, cfg_opt_setnint: C09).  With a symbolic target the release of a whole section /
    # the reset of defaults gives no verdict within 300 s (FN=3/4 of the harness), so the composition of
    # these two-line wrappers is outside the machine-checked claim in both tiers.
    # the schema-level resolver behind cfg_set_validate_func(): a step into a multi section addresses the
    # declarations every instance is copied from, a step into a single section its one instance
    uw = ["cfg_getopt_array.0:3", "cfg_getopt_array.1:4", "strcpy.0:6", "strlen.0:6", "strcmp.0:5", "strcspn.0:5", "strcspn.1:3", "strspn.0:5", "strspn.1:3", "v_strndup8.0:9", "alloc_values.0:3", "main.0:5"]
    obs.append(Ob("c11-register-path", "reg_step.c", [], unwind=3, unwindset=uw, checks="none", must_reach=("end of harness", "hit", "miss")))
    obs.append(Ob("c11-register-plain", "reg_step.c", ["-DPLAIN"], unwind=3, unwindset=uw, checks="none", must_reach=("end of harness", "hit", "miss")))
    if tier != "quick":
        for sh in ("N=QQQ|N", "N='qqq'|N", "N|N|N=Q"):
            add(1, sh)
        for sh in ("N=QQQ", "N='qqq'", "N|N|N"):
            add(2, sh)
    return obs


def run(tier, seed):
    return run_with(
        "C11", tier, seed, build_obs, functions=FUNCS,
        bounds="shaped paths: the positions of '|', '=', quotes and backslashes are a concrete obligation parameter (39 shapes incl. leading/trailing/doubled separators, stray '=', empty qualifier, unterminated quote, bad escape, text glued to a closing quote), every other byte symbolic; tree: root {int, single section, multi section x2, titled multi section x2} with 2 sub-options per instance; entry points cfg_getopt and cfg_getsec",
        assumptions=[
            "oracle = stepwise walk with single-level look-ups written in the harness; index qualifiers that the lenient strtol(.., 0) may still take as numbers (leading blank or sign, octal, hex) are grey; a digit 1-9 followed by a non-digit is definitely not a number",
            "strdup/strndup modelled with a fixed 8-byte capacity (functional agreement only); unshaped arbitrary paths, deeper trees and long names are outside the claim",
            "termination = the resolver's loop is unwound (number of segments + 1) times under unwinding assertions",
            "by-path setters and removers are the same resolver call followed by the single-level mutators checked under C09; their composition is not machine-checked (no verdict within the solver budget when the target is symbolic)",
        ])


MANIFEST = {
    "text": "The real path resolver is run through its public entry points on shaped paths (concrete separator/quote structure, symbolic name, index and title bytes) over a constructed two-level tree and compared with a stepwise walk: same option / section instance by pointer identity, first instance when unqualified, not-found and no change for every malformed shape.",
    "note": "Shaped paths only (segmentation concrete); fixed-capacity string copy models.",
}
