"""Obligations on include handling / scanner state between parses (harness/lex_incl.c)."""
from runner import Ob


def _ob(key, defs, reach, checks="std"):
    return Ob(key, "lex_incl.c", defs, unwind=12, checks=checks, family="lexincl", must_reach=("end of harness",) + tuple(reach))


def push_obs(tag):
    obs = []
    for d in (0, 1, 9, 10):
        for wp in (0, 1):
            defs = ["-DMODE=1", "-DDEPTH=%d" % d] + (["-DWITH_PATH"] if wp else [])
            obs.append(_ob("%s-push-d%d-%s" % (tag, d, "path" if wp else "nopath"), defs, ("limit",) if d >= 10 else ("failure", "success")))
    return obs


def pop_obs(tag):
    obs = []
    for sc in (0, 1, 2, 3):
        for own in (1, 0):
            for d in (1, 10):
                defs = ["-DMODE=2", "-DSC=%d" % sc, "-DOWN=%d" % own, "-DDEPTH=%d" % d]
                obs.append(_ob("%s-pop-sc%d-%s-d%d" % (tag, sc, "own" if own else "foreign", d), defs, ("sq",) if sc == 3 else (("own",) if own else ("foreign",))))
    return obs


def rdfail_obs(tag):
    """end of a source whose last read failed (directory, I/O error): reported, never taken for an empty file"""
    obs = []
    for sc in (0, 1, 2, 3):
        for own in (1, 0):
            defs = ["-DMODE=2", "-DSC=%d" % sc, "-DOWN=%d" % own, "-DDEPTH=1", "-DRDFAIL"]
            obs.append(_ob("%s-rdfail-sc%d-%s" % (tag, sc, "own" if own else "foreign"), defs, ("rdfail",)))
    return obs


def rest_obs(tag, depths=(0,)):
    obs = []
    for sc in (0, 1, 2, 3):
        for qs in (0, 1):
            for d in depths:
                defs = ["-DMODE=3", "-DSC=%d" % sc, "-DQS=%d" % qs, "-DDEPTH=%d" % d]
                obs.append(_ob("%s-rest-sc%d-qs%d-d%d" % (tag, sc, qs, d), defs, ()))
    return obs
