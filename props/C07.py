"""C07 - everything acquired is released exactly once on every path (DESIGN 4/C07)."""
from runner import Ob
from props.common import run_with
from props.parsecommon import parse_step_obs
from props.apicommon import api_obs
from props.inclcommon import push_obs, pop_obs, rest_obs

NEEDS_LEXER = True
FUNCS = ["cfg_free", "cfg_free_value", "cfg_free_opt_array", "cfg_free_searchpath", "cfg_parse_internal (every return: error label, EOF, '}')", "call_function", "cfg_setopt (PTR replace, SEC replace)",
         "cfg_opt_setmulti", "cfg_opt_rmnsec", "cfg_opt_rmtsec", "cfg_lexer_include", "<<EOF>> rule actions"]


def build_obs(tier, tables):
    obs = []
    for ni in (0, 1, 2):
        obs.append(Ob("c07-free-root-%dinst" % ni, "free_step.c", ["-DNINST=%d" % ni], unwind=7, checks="leak", must_reach=("end of harness",),
                      params={"what": "cfg_free on a bounded context", "section_instances": ni}))
    # parser: every state, symbolic (offending) token: temporaries are released on return, live while it continues
    obs += parse_step_obs(["CHK_C07"], "c07par", states=range(0, 16), callbacks=True, tier=tier, checks="none", extra_all=())
    for o in obs:
        if o.harness == "parse_step.c":
            o.flags = ["--pointer-check"]
    # a repeated title replaces the instance: the borrowed search path must survive
    extra = [o for o in parse_step_obs(["CHK_C07"], "c07path", states=[5], tier=tier, extra_all=("WITH_PATH=2",)) if "sect" in o.key or "secm" in o.key]
    extra += [o for o in parse_step_obs(["CHK_C07"], "c07path", states=[5], tier=tier, extra_all=("WITH_PATH=3",)) if "sect" in o.key]
    for o in extra:
        o.flags = ["--pointer-check"]
    obs += extra
    # API: removal with a search path, bulk set on an annotated option
    apio = api_obs("c07api", ["CHK_C07"], ops=("RMNSEC", "RMTSEC", "SETMULTI"), tier=tier)
    for o in apio:
        o.flags = ["--pointer-check"]
    obs += apio
    # include files: opened == closed on every failure exit, exactly the included file is closed at its end
    obs += push_obs("c07") + [o for o in pop_obs("c07") if "own" in o.key]
    # what is left open when a parse is aborted inside an included file (recorded finding)
    obs += [o for o in rest_obs("c07", depths=(1, 3)) if "-sc0-qs0-" in o.key]
    # file-name resolution: a look-up releases every candidate name it rejects (path_step.c counts the library's own
    # allocations during the call)
    import copy
    import props.C17 as C17
    for o in C17.build_obs(tier, with_lexer=False):
        if o.key.startswith("searchpath-"):
            o = copy.deepcopy(o)
            o.key = "c07-" + o.key
            obs.append(o)
    return obs


def run(tier, seed):
    return run_with(
        "C07", tier, seed, build_obs, needs_lexer=True, functions=FUNCS,
        bounds="cfg_free() on a bounded heap-built context (int list, annotated string with defaults, pointer list with release callback, multi section with 0-2 instances, function, 0/2 search directories) under CBMC's leak, double-free and use-after-free checks; parser steps in all 16 states with a symbolic token: temporaries (pending annotation, title, 0-2 collected call arguments) are released when the invocation returns and live while it continues; pointer-option replace calls the release callback exactly once; section replace / removal with a borrowed search path; bulk set on an annotated option; include push failures and pop",
        assumptions=[
            "long histories are covered only through 'any valid state' + the ownership invariant (paper argument); leak freedom is machine-checked for cfg_free() on the bounded context and asserted pointwise (freed / live) for parser temporaries",
            "known finding (C08/C13): include levels left open by an aborted parse are never closed",
        ])


MANIFEST = {
    "text": "The real release functions run on a bounded heap-built context under CBMC's memory-leak, double-free and deallocated-pointer checks; every parser state is stepped with a symbolic token and the invocation's temporaries must be released exactly when it returns and stay live while it continues; ownership-sensitive API calls (pointer replace, section replace/remove with a shared search path, bulk set on an annotated option) and include open/close balance are checked pointwise.",
    "note": "Ownership as step/post-condition lemmas plus one machine-checked leak-free release of a bounded context; histories by induction (paper argument).",
}
