"""C09 - setter, list and section API behaves as a simple typed store (DESIGN 4/C09)."""
from props.common import run_with
from props.apicommon import api_obs

NEEDS_LEXER = False
FUNCS = ["cfg_opt_setnint/-float/-bool/-str", "cfg_opt_getval", "cfg_addval", "cfg_setlist", "cfg_addlist", "cfg_addlist_internal", "cfg_opt_setmulti", "cfg_setopt",
         "cfg_addtsec", "cfg_opt_rmnsec", "cfg_opt_rmtsec", "cfg_opt_gettsec", "cfg_free_value", "cfg_free", "cfg_getopt (leaf)",
         "cfg_opt_size", "cfg_size", "cfg_opt_getn{int,float,bool,str,ptr,sec}", "cfg_getn{int,float,bool,str,ptr,sec}", "cfg_get{int,float,bool,str,ptr,sec}", "cfg_title", "cfg_name", "cfg_opt_name",
         "cfg_opt_gettsec", "cfg_gettsec", "cfg_opt_getcomment", "cfg_getcomment", "cfg_num", "cfg_numopts", "cfg_getnopt"]


def build_obs(tier, tables=None):
    obs = api_obs("c09", ["CHK_C09"], ops=("SETN", "WRONGTYPE", "SETLIST", "ADDLIST", "SETMULTI", "ADDTSEC", "RMNSEC", "RMTSEC", "SIMPLE_SET"), tier=tier)
    # removal "by path" = the path resolver's (section option, instance index) answer handed to the removal
    # by index checked above; the resolver's answer is checked on shaped paths (shared with C11)
    import props.C11 as C11
    obs += [o for o in C11.build_obs(tier) if "-fn2-" in o.key]
    # the observation layer ('as observed through size, indexed getters, titles'): readers vs stored state
    from props.getcommon import get_obs
    obs += get_obs("c09", "CHK_C09", tier)
    return obs


def run(tier, seed):
    return run_with(
        "C09", tier, seed, build_obs, functions=FUNCS,
        bounds="(readers: every public getter, by option and by name, on an option of each kind holding 0-3 symbolic values, index symbolic over all 2^32 values - get_step.c) one public mutator call per obligation from a harness-built valid option state: option kind (int, str, bool scalar; int, str, float list; titled/untitled multi section, single section) x 0-3 values held x call (indexed setter, wrong-type setter, list set/append with 0-2 values, bulk set of 1-3 strings, add titled section, remove by index/title with and without a search path); symbolic: stored values, RESET/MODIFIED bits, annotation, arguments (values, index 0..4, 1-2 byte strings); titles of existing instances concrete ('A','B','C')",
        assumptions=[
            "abstract store = ordered value sequence per option + title-keyed section sequence, observed through cfg_opt_size / cfg_opt_getn* / cfg_title / CFGF_MODIFIED; arbitrary call sequences follow by induction from 'any valid state' (paper argument)",
            "an indexed set beyond the end appends exactly one value (no gap filling); a set on an option that still holds only defaults first drops them",
            "realloc/memmove of the value vector modelled element-wise; allocation never fails; by-path names are C11's claim, simple_value options excluded",
        ])


MANIFEST = {
    "text": "Each public mutator is executed once from an arbitrary valid option state (symbolic values, flags, annotation, arguments) and its effect is compared with an abstract typed store through the public getters: replace/append positions, order preservation on removal, title uniqueness, modified flag, failure without effect for wrong type / illegal index / unknown title. Every public reader (size, indexed/by-name/index-less getters, titles, by-title and positional readers) is separately compared with the stored state for a symbolic index over all 2^32 values (get_step.c); setters on a simple integer option are covered.",
    "note": "One-call lemma from harness-built states; sequences by induction (paper argument); title matching concrete per obligation.",
}
