"""C12 - with ignore-unknown set, undeclared items are skipped cleanly (DESIGN 4/C12)."""
from props.common import run_with
from props.parsecommon import parse_step_obs

NEEDS_LEXER = False
FUNCS = ["cfg_parse_internal (state 0 unknown-name detection, discard states 10-15, recursive call with force_state 10)"]


def build_obs(tier, tables=None):
    obs = parse_step_obs(["CHK_C12", "CHK_C06"], "c12", states=[10, 11, 12, 13, 14, 15], tier=tier)
    obs += [o for o in parse_step_obs(["CHK_C12", "CHK_C06"], "c12", states=[0], tier=tier) if "f100" in o.key or "f900" in o.key or "-f0-l0" in o.key]
    return obs


def run(tier, seed):
    return run_with(
        "C12", tier, seed, build_obs, functions=FUNCS,
        bounds="one token per obligation in states 0 and 10-15, top-level and inside a skipped section (force_state 10), level 0/1; symbolic: token kind (all 11), token text, `ignore`, pending annotation; reference = recogniser of well-formed items (assignment, '+=', list, call, plain/titled section with nested items)",
        assumptions=[
            "simulation relation between the real discard states and the reference recogniser is checked per step; arbitrary nesting and arbitrarily long items follow by induction (paper argument)",
            "nested bodies are served as empty by the stub lexer; a non-empty nested body is the same lemma one level deeper",
            "ill-formed unknown items must be rejected with a diagnostic where the recogniser has no transition",
            "10^5-deep nesting (stack) is C02's concern",
        ])


MANIFEST = {
    "text": "Every discard state of the real parser (and state 0 with an unknown name, with and without the flag) is stepped with a symbolic token and compared with a pushdown recogniser of well-formed undeclared items: right successor state, no declared option touched, no diagnostic, nested skip returns exactly at the closing brace.",
    "note": "One-step simulation lemma through the guarded hook; stub lexer; induction over tokens and nesting is a paper argument.",
}
