"""C05 - printed configuration parses back to the same configuration (DESIGN 4/C05)."""
from runner import Ob
from props.common import run_with
from props.lexcommon import lex_step_obs
from props.parsecommon import parse_step_obs
import props.C19 as C19

NEEDS_LEXER = True
FUNCS = ["cfg_opt_nprint_var", "cfg_print_escaped", "cfg_opt_print_pff_indent", "cfg_print_pff_indent", "lexer.l <dq_str> rules", "qputc", "cfg_setopt (CFGT_INT/CFGT_BOOL conversion)", "cfg_parse_boolean"]
US = ["check.0:40", "v_fprintf.0:12", "v_fprintf.1:10", "put_ld.0:24", "put_ld.1:24", "main.0:8", "main.1:8", "main.2:40", "main.3:8", "main.4:8", "main.5:8", "main.6:8"]


def build_obs(tier, tables):
    obs = []
    for cont in ((3,) if tier == "quick" else (3, 4)):
        obs.append(Ob("rt-value-cont%d" % cont, "c05_rt.c", ["-DMODE=1", "-DCONT=%d" % cont], unwind=10, unwindset=US, checks="none", must_reach=("stepped",),
                      params={"what": "string value: print (2 symbolic bytes) -> one <dq_str> step", "continuation_bytes": cont}))
        obs.append(Ob("rt-title-cont%d" % cont, "c05_rt.c", ["-DMODE=2", "-DCONT=%d" % cont], unwind=10, unwindset=US, checks="none", must_reach=("stepped",),
                      params={"what": "section title: print (2 symbolic bytes) -> one <dq_str> step", "continuation_bytes": cont}))
    obs.append(Ob("rt-annotation", "c05_rt.c", ["-DMODE=4"], unwind=12, unwindset=US + ["v_fputs.0:12", "strstr.0:8", "strchr.0:8"], checks="none", must_reach=("stepped",),
                  params={"what": "annotation of 1-3 symbolic bytes printed by the real printer is exactly one comment of the language"}))
    obs.append(Ob("rt-keyname-word", "c05_rt.c", ["-DMODE=5", "-DBAREWORD"], unwind=12, unwindset=US + ["v_fputs.0:12"], checks="none", must_reach=("stepped",),
                  params={"what": "option name of 1-2 bare-word bytes: print -> one scanner step reads the same name back"}))
    obs.append(Ob("rt-keyname-any", "c05_rt.c", ["-DMODE=5"], unwind=12, unwindset=US + ["v_fputs.0:12"], checks="none", must_reach=("stepped",),
                  params={"what": "free-form key of 1-2 arbitrary bytes (CFGF_KEYSTRVAL accepts any string token as a key): print -> one scanner step"}))
    obs.append(Ob("rt-int-bool", "c05_rt.c", ["-DMODE=3"], unwind=12, unwindset=US, checks="none", must_reach=("stepped",),
                  params={"what": "integer in -99999..99999 and boolean: print -> cfg_setopt"}))
    # the accumulated string survives every later step and is delivered by the closing quote (incl. the
    # buffer-growth boundary): all <dq_str> rules at fill levels 2/31/32
    obs += lex_step_obs(tables, ["CHK_C03"], tier, "c05dq", windows=[4], checks="none", scs=(2,))
    # layout: what the printer writes for each option kind is what the parser's grammar expects
    # (name '=' value / name '= {' list '}' / name [title] '{' body '}' / '# ' for unset scalars only)
    obs += C19.build_obs(tier)
    obs += [o for o in parse_step_obs(["CHK_C01"], "c05acc", states=[1, 2, 3, 4, 5, 6], tier=tier) if "validcb" not in o.key and "parsecb" not in o.key]
    return obs


def run(tier, seed):
    return run_with(
        "C05", tier, seed, build_obs, needs_lexer=True, functions=FUNCS,
        bounds="strings and titles: every 2-byte string (bytes 1..255, second may be 0) printed by the real printer, followed by the closing quote and 3 (4) arbitrary bytes, one real <dq_str> step: yields exactly the first byte and leaves exactly the printed form of the rest (induction step over the string); integers -99999..99999 and booleans: print then convert through the real cfg_setopt(); accumulation/closing-quote steps of all <dq_str> rules at scratch fill 2/31/32; layout events (C19's obligations) and the grammar steps that read them back (parser states 1-6)",
        assumptions=[
            "whole-tree round trip and 'second print equals first' follow by induction over bytes, values, options and sections from these lemmas (paper argument)",
            "floats are outside the claim (%f and strtod are not modelled); fprintf is a memory formatter for the formats the printer uses",
            "multi-line annotations containing '*/' are outside the claim",
        ])


MANIFEST = {
    "text": "For every 2-byte string/title the real printer's output is fed to one step of the real double-quoted scanner rules: the step must return exactly the first byte and leave exactly the printed form of the remaining string (so by induction strings and titles round-trip byte for byte, whatever follows); printed integers and booleans convert back to themselves through the real conversion code; printed layout matches the grammar the parser steps accept.",
    "note": "Composition of printer and scanner on the real code inside one query; floats excluded.",
}
