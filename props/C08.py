"""C08 - a parse depends only on its own input, not on earlier parses (DESIGN 4/C08)."""
from props.common import run_with
from props.inclcommon import rest_obs, push_obs, rdfail_obs
from props.lexcommon import lex_step_obs

NEEDS_LEXER = True
FUNCS = ["cfg_scan_fp_begin", "cfg_scan_fp_end", "cfg_lexer_include (failure exits)", "<<EOF>> / error-returning rule actions of every start condition"]


def build_obs(tier, tables):
    obs = rest_obs("c08", depths=(0, 1, 3))
    # failing includes must not leave a trace in the process-global include stack
    obs += push_obs("c08")
    # a read failure is reported for the source it belongs to and then forgotten
    obs += rdfail_obs("c08")
    return obs


def run(tier, seed):
    return run_with(
        "C08", tier, seed, build_obs, needs_lexer=True, functions=FUNCS,
        bounds="the scanner's process-global state (start condition, scratch buffer, source stack, include stack, and every scalar file-scope variable lexer.l defines - list regenerated from the source on each run; integers arbitrary, pointers clear or naming one of the parse's sources) after cfg_scan_fp_end()+cfg_scan_fp_begin() - exactly what cfg_parse_fp() runs between two parses - from every start condition x scratch buffer allocated (any fill) or not x include depth 0/1/3; plus every failure exit of cfg_lexer_include() at depth 0/1/9/10",
        assumptions=[
            "the scanner globals are the only cross-parse state of the library besides errno (C04 shows the conversions do not depend on errno); if every parse starts from the fresh globals its outcome is a function of its input and context (paper argument)",
            "flex's own buffer-stack implementation is replaced by the flattened scanner's source stack; cfg_yylex_destroy() is not covered",
            "re-entrant parses from callbacks and threads are outside the claim; the defects this lemma found (include levels and the read-failure flag surviving an aborted parse) are repaired, see the fixed: entries in known_findings.txt",
        ])


MANIFEST = {
    "text": "From every scanner state in which a parse can stop (any start condition, scratch buffer allocated or not, include depth 0-3) the real end-of-parse/begin-of-parse sequence is executed and the globals are compared with their fresh-process values; failing includes are shown to leave the include stack untouched.",
    "note": "State-reset lemma on the flattened scanner over all scanner globals found in lexer.l.",
}
