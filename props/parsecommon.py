"""Obligation table for the parser-step family (harness/parse_step.c + parse_post.h)."""
from runner import Ob

K = dict(INT=1, STR=2, BOOL=3, FLOAT=4, INTLIST=5, STRLIST=6, PTR=7, SEC=8, SECM=9, SECT=10, SECTU=11, FUNC=12, DEPR=13, DEPRDROP=14, SECKV=15)
F = dict(NONE=0, NOCASE=1 << 2, IGNORE=1 << 8, COMMENTS=1 << 11, KEYSTRVAL=1 << 13)
SCALARS = ["INT", "STR", "BOOL", "FLOAT", "PTR"]
LISTS = ["INTLIST", "STRLIST"]


def _ob(tag, chk, state, kind, nv=1, ctxf=0, level=0, nargs=0, force10=False, extra=(), checks="none", ntok=2, tok=None, timeout=None):
    defs = ["-DPSTATE=%d" % state, "-DKIND=%d" % K[kind], "-DNV=%d" % nv, "-DCTXF=%d" % ctxf, "-DLEVEL=%d" % level,
            "-DNARGS=%d" % nargs, "-DNTOK=%d" % ntok] + ["-D" + c for c in chk] + ["-D" + e for e in extra]
    key = "%s-s%d-%s-nv%d-f%x-l%d" % (tag, state, kind.lower(), nv, ctxf, level)
    if nargs:
        key += "-a%d" % nargs
    if force10:
        defs.append("-DFORCE10")
        key += "-nested"
    if tok is not None:
        defs.append("-DTOK=%d" % tok)
        key += "-tok%d" % tok
    for e in extra:
        key += "-" + e.lower().replace("with_", "").replace("newtitle=", "t").replace("'", "")
    return Ob(key, "parse_step.c", defs, unwind=5,
              unwindset=["main.0:17", "cfg_getopt_leaf.0:17", "ref_lookup.0:17", "cfg_getopt_secidx.0:2", "v_strndup8.0:9",
                         "cfg_init_defaults.2:4", "cfg_dupopt_array.0:4", "cfg_dupopt_array.1:4", "v_free.0:9", "times_freed.0:9"],
              checks=checks, family="parsestep", must_reach=("post checked",), timeout=timeout,
              params={"parser_state": state, "option_kind": kind, "existing_values": nv, "context_flags": ctxf, "level": level,
                      "collected_args": nargs, "inside_skipped_section": force10, "extras": list(extra)})


def parse_step_obs(chk, tag, states=range(0, 16), checks="none", callbacks=False, comments=False, tok=None, tier="quick", ntok=2, extra_all=()):
    obs = []
    S = set(states)
    def add(*a, **kw):
        kw["extra"] = tuple(kw.get("extra", ())) + tuple(extra_all)
        obs.append(_ob(tag, chk, *a, checks=checks, tok=tok, ntok=ntok, **kw))
    if 0 in S:
        for ctxf in (0, F["NOCASE"], F["IGNORE"], F["COMMENTS"]):
            for level in (0, 1):
                add(0, "INT", 1, ctxf, level)
        add(0, "INT", 1, F["IGNORE"] | F["COMMENTS"], 0)
        add(0, "INT", 1, F["IGNORE"] | F["COMMENTS"], 1)
        add(0, "DEPR", 1, 0, 0, extra=("PREV_IS_O",))
        add(0, "DEPRDROP", 1, 0, 1, extra=("PREV_IS_O",))
        add(0, "DEPRDROP", 1, F["IGNORE"], 0, extra=("PREV_IS_O",))
        add(0, "INT", 1, 0, 0, extra=("PREV_IS_O",))
        add(0, "DEPRDROP", 1, 0, 1, extra=("PREV_IS_O", "FORCE_OPT"))  # end of the default value string of a deprecated option
        add(0, "DEPR", 1, 0, 1, extra=("PREV_IS_O", "FORCE_OPT"))
        add(0, "STRLIST", 2, F["IGNORE"], 1, extra=("PREV_IS_O",))
        add(0, "SECKV", 1, 0, 1)
        add(0, "SECKV", 1, F["NOCASE"], 1)
    if 1 in S:
        for k in SCALARS:
            add(1, k, 1)
        add(1, "INT", 0)
        for k in LISTS:
            add(1, k, 0)
            add(1, k, 2)
    if 2 in S:
        for k in SCALARS:
            for nv in (0, 1):
                add(2, k, nv, extra=("WITH_PARSECB",) if k == "PTR" else ())
        for k in LISTS:
            for nv in (0, 1, 2):
                add(2, k, nv)
        add(2, "INT", 1, F["COMMENTS"])
        add(2, "STRLIST", 1, F["COMMENTS"])
        add(2, "STR", 0, F["COMMENTS"])
        if callbacks:
            add(2, "INT", 1, extra=("WITH_VALIDCB",))
            add(2, "INTLIST", 2, extra=("WITH_VALIDCB",))
            add(2, "STR", 1, extra=("WITH_PARSECB",))
            add(2, "INT", 0, extra=("WITH_PARSECB", "WITH_VALIDCB"))
    if 3 in S:
        for k in LISTS:
            add(3, k, 0)
            add(3, k, 2)
        add(3, "INTLIST", 1, F["COMMENTS"])  # a pending annotation and a list assigned one value without braces
        add(3, "STRLIST", 0, F["COMMENTS"])
        if callbacks:
            add(3, "INTLIST", 1, extra=("WITH_VALIDCB",))
    if 4 in S:
        for k in LISTS:
            add(4, k, 1)
            add(4, k, 2)
        if callbacks:
            add(4, "INTLIST", 2, extra=("WITH_VALIDCB",))
    if 5 in S:
        add(5, "SEC", 1)
        add(5, "SEC", 1, extra=("SEC_NODEFAULT",))  # CFGF_NODEFAULT single section opened a second time
        add(5, "SEC", 0, extra=("SEC_NODEFAULT",))
        add(5, "SEC", 0, F["KEYSTRVAL"])  # an ordinary section declared inside a free-form section
        add(5, "SECM", 1, F["KEYSTRVAL"])
        add(5, "SEC", 0)  # a single section whose instance was removed (cfg_rmsec) and is created again
        for nv in (0, 1, 2):
            add(5, "SECM", nv)
        # titled sections: existing titles "A","B"; the new title is a concrete parameter
        add(5, "SECT", 0, extra=("NEWTITLE='C'",))
        add(5, "SECT", 1, extra=("NEWTITLE='A'",))
        add(5, "SECT", 2, extra=("NEWTITLE='C'",))
        add(5, "SECT", 2, extra=("NEWTITLE='A'",))
        add(5, "SECT", 2, extra=("NEWTITLE='B'",))
        add(5, "SECT", 2, extra=("NEWTITLE='b'",))
        add(5, "SECT", 2, F["NOCASE"], extra=("NEWTITLE='b'",))
        add(5, "SECT", 2, F["NOCASE"], extra=("NEWTITLE='C'",))
        add(5, "SECTU", 0, extra=("NEWTITLE='C'",))
        add(5, "SECTU", 2, extra=("NEWTITLE='C'",))
        add(5, "SECTU", 2, extra=("NEWTITLE='B'",))
        add(5, "SECTU", 2, extra=("NEWTITLE='a'",))
        add(5, "SECTU", 2, F["NOCASE"], extra=("NEWTITLE='a'",))
        add(5, "SECM", 1, 0, 1)
        # a titled section option that is called "root", entered through the real cfg_parse_fp(): replacing an
        # instance frees a context named like the top-level one while the parse is in progress
        add(5, "SECT", 2, extra=("NEWTITLE='A'", "NAMEROOT", "VIA_PARSE_FP"))
        add(5, "SECT", 2, extra=("NEWTITLE='C'", "NAMEROOT", "VIA_PARSE_FP"))
        if callbacks:
            add(5, "SECM", 1, extra=("WITH_VALIDCB",))
            add(5, "SEC", 1, extra=("WITH_VALIDCB",))
    if 6 in S:
        add(6, "SECT", 1)
        add(6, "SECTU", 0)
    if 7 in S:
        add(7, "FUNC", 0)
    if 8 in S:
        for na in (0, 1, 2):
            add(8, "FUNC", 0, nargs=na, extra=("TRACK_CALLOC",))
    if 9 in S:
        for na in (1, 2):
            add(9, "FUNC", 0, nargs=na, extra=("TRACK_CALLOC",))
    for st in (10, 11, 12, 13, 14, 15):
        if st in S:
            for nested in (False, True):
                if st == 15 and not nested:
                    continue
                add(st, "INT", 1, F["IGNORE"], 1 if nested else 0, force10=nested)
            if st != 15:
                # inside the body of a DECLARED section (level 1) but not inside a skipped one
                add(st, "INT", 1, F["IGNORE"], 1, force10=False)
            if st == 10:
                add(st, "INT", 1, F["IGNORE"] | F["COMMENTS"], 0)
            if st == 12:
                # at the nesting limit of declared sections: undeclared content may still nest deeper
                add(st, "INT", 1, F["IGNORE"], 1000, force10=True)
                add(st, "INT", 1, F["IGNORE"], 1000, force10=False)
    if tier != "quick":
        # thorough: the same states one nesting level down, more existing values, case-insensitive contexts
        if 1 in S:
            for k in SCALARS + LISTS:
                add(1, k, 1, 0, 1)
        if 2 in S:
            for k in SCALARS:
                add(2, k, 1, F["NOCASE"], 1, extra=("WITH_PARSECB",) if k == "PTR" else ())
            for k in LISTS:
                add(2, k, 2, 0, 1)
                add(2, k, 2, F["COMMENTS"], 0)
        if 3 in S:
            for k in LISTS:
                add(3, k, 1, 0, 1)
        if 4 in S:
            for k in LISTS:
                add(4, k, 2, 0, 1)
        if 5 in S:
            add(5, "SECM", 2, F["NOCASE"], 1)
            add(5, "SEC", 1, 0, 1)
            add(5, "SECT", 2, 0, 1, extra=("NEWTITLE='A'",))
            add(5, "SECTU", 2, 0, 1, extra=("NEWTITLE='B'",))
        if 6 in S:
            add(6, "SECT", 2, 0, 1)
        for st in (7, 8, 9):
            if st in S:
                add(st, "FUNC", 0, 0, 1, nargs=1 if st >= 8 else 0, extra=("TRACK_CALLOC",) if st >= 8 else ())
    seen = set()
    uniq = []
    for o in obs:
        if o.key not in seen:
            seen.add(o.key)
            uniq.append(o)
    return uniq


def pathname_obs(chk, tag):
    """state 0, the item name is the shaped path key "c|X" (X symbolic) into the single section "c": looked up through
    the path resolver, an unknown leaf is reported against the context being scanned"""
    obs = []
    for ctxf in (0, F["NOCASE"], F["IGNORE"]):
        o = _ob(tag, chk, 0, "SEC", 1, ctxf, 0, extra=("PATHNAME",), ntok=3)
        o.unwindset = [u for u in o.unwindset if not u.startswith("cfg_getopt_secidx")] + ["cfg_getopt_secidx.0:4", "cfg_getopt_secidx.1:4"]
        o.params["item_name"] = "path key c|X"
        obs.append(o)
    return obs
