/*
 * C15 / finding 2: a C-style comment inserted at the token boundary directly
 * after an unquoted token (no white space in between, e.g.  i/ *c* /= 1  or
 * i = 1/ *c* /) is not transparent: the '/' is swallowed into the unquoted
 * token and the rest of the comment is scanned as ordinary text, so an
 * accepted text becomes rejected (or a value silently changes).
 * A '#' comment, or the same comment after a quoted token or a punctuation
 * token, at the very same position is handled correctly.
 */
#include <stdio.h>
#include <stdlib.h>
#include <string.h>
#include "confuse.h"

static int failures;

static void quiet(cfg_t *cfg, const char *fmt, va_list ap)
{
	printf("      [libconfuse error, line %d: ", cfg->line);
	vprintf(fmt, ap);
	printf("]\n");
}

static int ncalls;
static char lastargs[256];
static int fn(cfg_t *cfg, cfg_opt_t *opt, int argc, const char **argv)
{
	int i;

	(void)cfg; (void)opt;
	ncalls++;
	lastargs[0] = 0;
	for (i = 0; i < argc; i++) {
		strncat(lastargs, "[", sizeof(lastargs) - strlen(lastargs) - 1);
		strncat(lastargs, argv[i], sizeof(lastargs) - strlen(lastargs) - 1);
		strncat(lastargs, "]", sizeof(lastargs) - strlen(lastargs) - 1);
	}
	return 0;
}

/* parse text, render "rc + all values" into out */
static void run(int flags, const char *text, char *out, size_t outsz)
{
	cfg_opt_t sub[] = {
		CFG_INT("k", 0, CFGF_NONE),
		CFG_END()
	};
	cfg_opt_t opts[] = {
		CFG_INT("i", 0, CFGF_NONE),
		CFG_STR("s", "dflt", CFGF_NONE),
		CFG_INT_LIST("il", NULL, CFGF_NONE),
		CFG_SEC("sec", sub, CFGF_NONE),
		CFG_SEC("tsec", sub, CFGF_TITLE | CFGF_MULTI),
		CFG_FUNC("fn", fn),
		CFG_END()
	};
	cfg_t *cfg = cfg_init(opts, flags);
	unsigned int j;
	int rc;
	size_t n;

	if (!cfg)
		exit(2);
	cfg_set_error_function(cfg, quiet);
	ncalls = 0;
	lastargs[0] = 0;
	rc = cfg_parse_buf(cfg, text);
	n = snprintf(out, outsz, "rc=%d i=%ld s=\"%s\" il={", rc, cfg_getint(cfg, "i"), cfg_getstr(cfg, "s"));
	for (j = 0; j < cfg_size(cfg, "il"); j++)
		n += snprintf(out + n, outsz - n, "%s%ld", j ? "," : "", cfg_getnint(cfg, "il", j));
	n += snprintf(out + n, outsz - n, "} sec.k=%ld #tsec=%u", cfg_getint(cfg, "sec|k"), cfg_size(cfg, "tsec"));
	if (cfg_size(cfg, "tsec"))
		n += snprintf(out + n, outsz - n, " tsec[0].title=\"%s\"", cfg_title(cfg_getnsec(cfg, "tsec", 0)));
	snprintf(out + n, outsz - n, " fn-calls=%d%s", ncalls, lastargs);
	cfg_free(cfg);
}

static void show(const char *label, const char *text)
{
	printf("    %s: ", label);
	for (; *text; text++)
		if (*text == '\n')
			printf("\\n");
		else
			putchar(*text);
	printf("\n");
}

static void check(int decisive, const char *base, const char *with_comment)
{
	static const int flagsets[2] = { CFGF_NONE, CFGF_COMMENTS };
	char a[512], b[512];
	int f;

	for (f = 0; f < 2; f++) {
		int same;

		printf("  annotations %s\n", f ? "on " : "off");
		show("base text   ", base);
		run(flagsets[f], base, a, sizeof(a));
		show("with comment", with_comment);
		run(flagsets[f], with_comment, b, sizeof(b));
		same = strcmp(a, b) == 0;
		printf("    expected: %s\n    got     : %s\n    -> %s\n", a, b,
		       same ? "same (ok)" : decisive ? "DIFFERENT: VIOLATION" : "different (info only)");
		if (!same && decisive)
			failures++;
	}
}

int main(void)
{
	printf("reference: the same insertion points with white space, '#' comments, or after quoted/punctuation tokens\n");
	check(1, "i= 1", "i /*c*/= 1");
	check(1, "i= 1", "i#c\n= 1");
	check(1, "s = \"a\" i = 2", "s = \"a\"/*c*/ i = 2");
	check(1, "il = {1,2}", "il = {1,/*c*/2}/*c*/");
	if (failures)
		printf("unexpected: a reference case fails\n");

	printf("\ncomment '/*c*/' glued to the unquoted token in front of it\n");
	check(1, "i= 1", "i/*c*/= 1");                        /* between option name and '=' */
	check(1, "i = 1", "i = 1/*c*/");                      /* after the value, end of text */
	check(1, "s = a i = 2", "s = a/*c*/ i = 2");          /* after an unquoted string value */
	check(1, "il = {1,2}", "il = {1/*c*/,2}");            /* inside a list */
	check(1, "sec{k = 4}", "sec/*c*/{k = 4}");            /* between section name and '{' */
	check(1, "tsec t{}", "tsec t/**/{}");                 /* between title and '{', empty comment */
	check(1, "fn(a,b)", "fn(a/* c */,b)");                /* inside call arguments */
	check(1, "i = 1", "i/*\n multi\n line */= 1");        /* multi-line */

	printf("\nfor information: '//' comment glued to the unquoted token in front of it\n");
	check(0, "i = 1", "i = 1//c\n");
	check(0, "i= 1", "i//c\n= 1");

	printf("\n%s (%d mismatches)\n", failures ? "PROPERTY VIOLATED" : "property holds", failures);
	return failures ? 1 : 0;
}
