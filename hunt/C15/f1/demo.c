/*
 * C15 / finding 1: with CFGF_COMMENTS, a comment placed immediately before
 * "list = value" (a list option assigned one value without braces) does not
 * become the annotation of that list option; it stays pending and is attached
 * to the NEXT option that is assigned instead.
 */
#include <stdio.h>
#include <stdlib.h>
#include <string.h>
#include "confuse.h"

static int failures;

static void quiet(cfg_t *cfg, const char *fmt, va_list ap)
{
	printf("    [libconfuse error, line %d: ", cfg->line);
	vprintf(fmt, ap);
	printf("]\n");
}

static cfg_t *mk(cfg_opt_t *opts)
{
	cfg_t *cfg = cfg_init(opts, CFGF_COMMENTS);

	if (!cfg) {
		printf("cfg_init failed\n");
		exit(2);
	}
	cfg_set_error_function(cfg, quiet);
	return cfg;
}

static const char *show(const char *s)
{
	return s ? s : "(null)";
}

/* decisive != 0: a mismatch counts as a violation of the statement;
 * decisive == 0: shown for information only (where the comment went instead) */
static void expect_comment(cfg_t *cfg, const char *what, const char *name, const char *want, int decisive)
{
	const char *got = cfg_getcomment(cfg, name);
	int ok = (want == NULL) ? (got == NULL) : (got && strcmp(got, want) == 0);

	printf("  %-28s annotation of '%s': expected %s%s%s, got %s%s%s  -> %s\n", what, name,
	       want ? "\"" : "", show(want), want ? "\"" : "",
	       got ? "\"" : "", show(got), got ? "\"" : "",
	       ok ? "ok" : decisive ? "VIOLATION" : "(info: the comment leaked to this option)");
	if (!ok && decisive)
		failures++;
}

static void one_case(const char *label, const char *text)
{
	cfg_opt_t opts[] = {
		CFG_INT_LIST("ports", NULL, CFGF_NONE),
		CFG_STR_LIST("names", "{x}", CFGF_NONE),
		CFG_INT("level", 0, CFGF_NONE),
		CFG_END()
	};
	cfg_t *cfg = mk(opts), *cfg2;
	char *out = NULL;
	size_t outlen = 0;
	FILE *fp;
	int rc;

	printf("%s\n  text: ", label);
	for (const char *p = text; *p; p++)
		if (*p == '\n')
			printf("\\n");
		else
			putchar(*p);
	printf("\n");

	rc = cfg_parse_buf(cfg, text);
	printf("  cfg_parse_buf -> %d (expected %d)\n", rc, CFG_SUCCESS);
	if (rc != CFG_SUCCESS)
		failures++;

	printf("  ports has %u value(s), first = %ld\n", cfg_size(cfg, "ports"), cfg_size(cfg, "ports") ? cfg_getnint(cfg, "ports", 0) : -1L);
	expect_comment(cfg, "after parse:", "ports", "about ports", 1);
	expect_comment(cfg, "after parse:", "level", NULL, 0);

	/* print -> re-parse into a fresh context */
	fp = open_memstream(&out, &outlen);
	cfg_print(cfg, fp);
	fclose(fp);
	cfg2 = mk(opts);
	rc = cfg_parse_buf(cfg2, out);
	if (rc != CFG_SUCCESS) {
		printf("  re-parse of printed text failed\n");
		failures++;
	}
	expect_comment(cfg2, "after print + re-parse:", "ports", "about ports", 1);
	expect_comment(cfg2, "after print + re-parse:", "level", NULL, 0);

	free(out);
	cfg_free(cfg2);
	cfg_free(cfg);
}

int main(void)
{
	/* reference: the braced form works */
	one_case("[reference] list assigned with braces",
		 "# about ports\nports = {80}\nlevel = 3\n");
	if (failures) {
		printf("unexpected: the reference case already fails\n");
	}

	one_case("[case 1] list assigned a single value without braces",
		 "# about ports\nports = 80\nlevel = 3\n");

	one_case("[case 2] list appended a single value without braces",
		 "/* about ports */\nports += 80\nlevel = 3\n");

	printf("%s (%d mismatches)\n", failures ? "PROPERTY VIOLATED" : "property holds", failures);
	return failures ? 1 : 0;
}
