/*
 * C15 / finding 3: an annotation taken from a one-line comment ('#...' or
 * '//...') that contains the two characters '*' '/' is written by cfg_print()
 * verbatim between C comment delimiters.  The printed comment therefore ends
 * early; the re-parse of the printed text is rejected (or, when the rest
 * happens to be parseable, yields a truncated annotation), so the annotation
 * is NOT "read back by a re-parse".
 */
#include <stdio.h>
#include <stdlib.h>
#include <string.h>
#include "confuse.h"

static int failures;

static void quiet(cfg_t *cfg, const char *fmt, va_list ap)
{
	printf("      [libconfuse error, line %d: ", cfg->line);
	vprintf(fmt, ap);
	printf("]\n");
}

static void show(const char *label, const char *text)
{
	printf("  %s", label);
	for (; *text; text++)
		if (*text == '\n')
			printf("\\n");
		else
			putchar(*text);
	printf("\n");
}

static void one_case(const char *text, const char *want)
{
	cfg_opt_t opts[] = {
		CFG_INT("i", 0, CFGF_NONE),
		CFG_STR("s", "dflt", CFGF_NONE),
		CFG_END()
	};
	cfg_t *cfg, *cfg2;
	char *out = NULL, *got;
	size_t outlen = 0;
	FILE *fp;
	int rc;

	show("text            : ", text);
	cfg = cfg_init(opts, CFGF_COMMENTS);
	if (!cfg)
		exit(2);
	cfg_set_error_function(cfg, quiet);
	rc = cfg_parse_buf(cfg, text);
	got = cfg_getcomment(cfg, "i");
	printf("  parse           : rc=%d, i=%ld, annotation of i = %s%s%s (expected \"%s\")\n", rc, cfg_getint(cfg, "i"),
	       got ? "\"" : "", got ? got : "(null)", got ? "\"" : "", want);
	if (rc != CFG_SUCCESS || !got || strcmp(got, want) != 0) {
		printf("  -> VIOLATION already at the first parse\n");
		failures++;
	}

	fp = open_memstream(&out, &outlen);
	cfg_print(cfg, fp);
	fclose(fp);
	show("cfg_print wrote : ", out);

	cfg2 = cfg_init(opts, CFGF_COMMENTS);
	if (!cfg2)
		exit(2);
	cfg_set_error_function(cfg2, quiet);
	rc = cfg_parse_buf(cfg2, out);
	got = cfg_getcomment(cfg2, "i");
	printf("  re-parse        : rc=%d (expected %d), i=%ld (expected %ld), annotation of i = %s%s%s (expected \"%s\")\n",
	       rc, CFG_SUCCESS, cfg_getint(cfg2, "i"), cfg_getint(cfg, "i"),
	       got ? "\"" : "", got ? got : "(null)", got ? "\"" : "", want);
	if (rc != CFG_SUCCESS || cfg_getint(cfg2, "i") != cfg_getint(cfg, "i") || !got || strcmp(got, want) != 0) {
		printf("  -> VIOLATION: the annotation was not read back by the re-parse\n");
		failures++;
	} else
		printf("  -> ok\n");
	printf("\n");

	free(out);
	cfg_free(cfg2);
	cfg_free(cfg);
}

int main(void)
{
	/* references: ordinary one-line and multi-line annotations round-trip */
	one_case("# plain annotation\ni = 1\n", "plain annotation");
	one_case("/* two\n   lines */\ni = 1\n", "two\n   lines");
	one_case("# stars * and / slashes /* are fine\ni = 1\n", "stars * and / slashes /* are fine");
	if (failures)
		printf("unexpected: a reference case fails\n\n");

	/* the violations */
	one_case("# glob pattern: src/*/*.c (all sources)\ni = 1\n", "glob pattern: src/*/*.c (all sources)");
	one_case("// was: /* old */ i = 0\ni = 1\n", "was: /* old */ i = 0");
	one_case("# */\ni = 1\n", "*/");
	/* here the printed text even re-parses successfully, with other content */
	one_case("# a */ s = hijacked /* b\ni = 1\n", "a */ s = hijacked /* b");

	printf("%s (%d mismatches)\n", failures ? "PROPERTY VIOLATED" : "property holds", failures);
	return failures ? 1 : 0;
}
