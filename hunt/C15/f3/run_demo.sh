#!/bin/sh
# usage: run_demo.sh <tree-root>
# Builds demo.c against the library sources of <tree-root> (ASan+UBSan),
# runs it and exits 0 iff the property held.
set -u
ROOT=${1:?usage: run_demo.sh <tree-root>}
ROOT=$(cd "$ROOT" && pwd) || exit 2
HERE=$(cd "$(dirname "$0")" && pwd)
T=$(mktemp -d) || exit 2
trap 'rm -rf "$T"' EXIT INT TERM

# always scan with a lexer generated from the tree's current lexer.l
if command -v flex >/dev/null 2>&1; then
    flex -Pcfg_yy -o "$T/lexer.c" "$ROOT/src/lexer.l" || exit 2
else
    cp "$ROOT/src/lexer.c" "$T/lexer.c" || exit 2
fi

gcc -g -w -fsanitize=address,undefined -fno-sanitize-recover=undefined \
    -DHAVE_CONFIG_H -DLOCALEDIR='"/x"' -I"$ROOT" -I"$ROOT/src" \
    "$HERE/demo.c" "$ROOT/src/confuse.c" "$T/lexer.c" -o "$T/demo" || exit 2

cd "$T" || exit 2
ASAN_OPTIONS=detect_leaks=0 ./demo
rc=$?
echo "demo exit status: $rc"
exit $rc
