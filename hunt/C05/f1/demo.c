/*
 * C05 / finding 1: values of "simple" options (CFG_SIMPLE_INT/STR/BOOL/FLOAT)
 * are printed commented out ("# i=5"), so a print -> parse cycle loses them.
 *
 * exit 0: property held, exit 1: property violated
 */
#include <stdio.h>
#include <stdlib.h>
#include <string.h>
#include "confuse.h"

static char *print_cfg(cfg_t *cfg)
{
	char *buf = NULL;
	size_t len = 0;
	FILE *fp = open_memstream(&buf, &len);

	cfg_print(cfg, fp);
	fclose(fp);
	return buf;
}

int main(void)
{
	/* first context, values are read from a text */
	long i1 = 0;
	char *s1 = NULL;
	cfg_bool_t b1 = cfg_false;
	double f1 = 0;
	cfg_opt_t opts1[] = {
		CFG_SIMPLE_INT("i", &i1),
		CFG_SIMPLE_STR("s", &s1),
		CFG_SIMPLE_BOOL("b", &b1),
		CFG_SIMPLE_FLOAT("f", &f1),
		CFG_END()
	};
	/* second, fresh context with the same schema */
	long i2 = 0;
	char *s2 = NULL;
	cfg_bool_t b2 = cfg_false;
	double f2 = 0;
	cfg_opt_t opts2[] = {
		CFG_SIMPLE_INT("i", &i2),
		CFG_SIMPLE_STR("s", &s2),
		CFG_SIMPLE_BOOL("b", &b2),
		CFG_SIMPLE_FLOAT("f", &f2),
		CFG_END()
	};
	cfg_t *cfg1, *cfg2;
	char *text1, *text2;
	int bad = 0;

	cfg1 = cfg_init(opts1, CFGF_NONE);
	if (cfg_parse_buf(cfg1, "i = 5\ns = \"hi\"\nb = true\nf = 1.5\n") != CFG_SUCCESS) {
		printf("setup: the input text was not accepted\n");
		return 2;
	}
	/* one more value through the setter API */
	cfg_setint(cfg1, "i", 7);

	printf("state 1 : i=%ld s=%s b=%d f=%f\n", cfg_getint(cfg1, "i"), cfg_getstr(cfg1, "s"),
	       cfg_getbool(cfg1, "b"), cfg_getfloat(cfg1, "f"));

	text1 = print_cfg(cfg1);
	printf("printed text 1:\n-----\n%s-----\n", text1);

	cfg2 = cfg_init(opts2, CFGF_NONE);
	if (cfg_parse_buf(cfg2, text1) != CFG_SUCCESS) {
		printf("VIOLATION: printed text is not accepted by the parser\n");
		return 1;
	}

	printf("expected after re-parse: i=7 s=hi b=1 f=1.500000\n");
	printf("got      after re-parse: i=%ld s=%s b=%d f=%f\n", cfg_getint(cfg2, "i"),
	       cfg_getstr(cfg2, "s") ? cfg_getstr(cfg2, "s") : "(null)", cfg_getbool(cfg2, "b"), cfg_getfloat(cfg2, "f"));

	if (cfg_getint(cfg2, "i") != 7) {
		printf("VIOLATION: integer i differs\n");
		bad = 1;
	}
	if (!cfg_getstr(cfg2, "s") || strcmp(cfg_getstr(cfg2, "s"), "hi")) {
		printf("VIOLATION: string s differs\n");
		bad = 1;
	}
	if (cfg_getbool(cfg2, "b") != cfg_true) {
		printf("VIOLATION: boolean b differs\n");
		bad = 1;
	}
	if (cfg_getfloat(cfg2, "f") != 1.5) {
		printf("VIOLATION: float f differs\n");
		bad = 1;
	}

	text2 = print_cfg(cfg2);
	if (strcmp(text1, text2)) {
		printf("VIOLATION: printing the re-parsed configuration does not reproduce text 1:\n-----\n%s-----\n", text2);
		bad = 1;
	}

	free(text1);
	free(text2);
	cfg_free(cfg1);
	cfg_free(cfg2);
	free(s1);
	free(s2);

	return bad;
}
