#!/bin/sh
# usage: run_demo.sh <tree-root>
# Builds demo.c together with <tree-root>/src/confuse.c and the lexer (ASan+UBSan),
# runs it, exits 0 iff the property held.
set -u
ROOT=${1:?usage: run_demo.sh <tree-root>}
ROOT=$(cd "$ROOT" && pwd) || exit 2
HERE=$(cd "$(dirname "$0")" && pwd)
TMP=$(mktemp -d) || exit 2
trap 'rm -rf "$TMP"' EXIT INT TERM

# lexer: regenerate from lexer.l when flex is there (so that an edited lexer.l is honoured)
if command -v flex >/dev/null 2>&1 && flex -Pcfg_yy -o"$TMP/lexer.c" "$ROOT/src/lexer.l" 2>/dev/null; then
	:
else
	cp "$ROOT/src/lexer.c" "$TMP/lexer.c" || exit 2
fi

if [ -f "$ROOT/config.h" ]; then
	CFGDEF="-DHAVE_CONFIG_H"
else
	CFGDEF="-DHAVE_STRING_H -DHAVE_UNISTD_H -DHAVE_STRDUP -DHAVE_STRNDUP -DHAVE_STRCASECMP -DHAVE_FMEMOPEN -DHAVE_REALLOCARRAY -DPACKAGE=\"confuse\""
fi

gcc -g -O0 -w -fsanitize=address,undefined -fno-sanitize-recover=undefined \
	-D_GNU_SOURCE $CFGDEF -DLOCALEDIR='"/x"' -I"$ROOT" -I"$ROOT/src" \
	"$HERE/demo.c" "$ROOT/src/confuse.c" "$TMP/lexer.c" -o "$TMP/demo" || exit 2

ASAN_OPTIONS=detect_leaks=0 "$TMP/demo"
rc=$?
[ $rc -eq 0 ] && echo "PROPERTY HELD" || echo "PROPERTY VIOLATED (exit $rc)"
exit $rc
