/*
 * C05 / finding 3: the keys of a free-form section (CFGF_KEYSTRVAL) are taken
 * from any string token, quoted ones included, but they are printed raw.  A key
 * with a blank, a '#', a quote, ... (or the empty key) is printed as a text that
 * is refused by the parser or that silently means something else.
 *
 * exit 0: property held, exit 1: property violated
 */
#include <stdio.h>
#include <stdlib.h>
#include <string.h>
#include "confuse.h"

static cfg_opt_t none[] = {
	CFG_END()
};

static cfg_opt_t opts[] = {
	CFG_SEC("env", none, CFGF_KEYSTRVAL),
	CFG_END()
};

static char *print_cfg(cfg_t *cfg)
{
	char *buf = NULL;
	size_t len = 0;
	FILE *fp = open_memstream(&buf, &len);

	cfg_print(cfg, fp);
	fclose(fp);
	return buf;
}

static void dump(const char *what, cfg_t *cfg)
{
	cfg_t *sec = cfg_getsec(cfg, "env");
	unsigned int i;

	printf("%s: %u keys:", what, cfg_num(sec));
	for (i = 0; i < cfg_num(sec); i++) {
		cfg_opt_t *opt = cfg_getnopt(sec, i);

		printf(" [%s]=[%s]", cfg_opt_name(opt), cfg_opt_getstr(opt) ? cfg_opt_getstr(opt) : "(null)");
	}
	printf("\n");
}

/* same keys in the same order with the same values? */
static int same(cfg_t *a, cfg_t *b)
{
	cfg_t *sa = cfg_getsec(a, "env"), *sb = cfg_getsec(b, "env");
	unsigned int i;

	if (!sa || !sb || cfg_num(sa) != cfg_num(sb))
		return 0;
	for (i = 0; i < cfg_num(sa); i++) {
		cfg_opt_t *oa = cfg_getnopt(sa, i), *ob = cfg_getnopt(sb, i);
		const char *va = cfg_opt_getstr(oa), *vb = cfg_opt_getstr(ob);

		if (strcmp(cfg_opt_name(oa), cfg_opt_name(ob)))
			return 0;
		if (cfg_opt_size(oa) != cfg_opt_size(ob))
			return 0;
		if (!va != !vb || (va && strcmp(va, vb)))
			return 0;
	}
	return 1;
}

static int roundtrip(const char *input)
{
	cfg_t *cfg1, *cfg2;
	char *text1, *text2;
	int bad = 0;

	printf("=== input: %s", input);
	cfg1 = cfg_init(opts, CFGF_NONE);
	if (cfg_parse_buf(cfg1, input) != CFG_SUCCESS) {
		printf("the input is not accepted, nothing to check\n");
		cfg_free(cfg1);
		return 0;
	}
	dump("state 1 ", cfg1);
	text1 = print_cfg(cfg1);
	printf("printed text 1:\n-----\n%s-----\n", text1);

	cfg2 = cfg_init(opts, CFGF_NONE);
	if (cfg_parse_buf(cfg2, text1) != CFG_SUCCESS) {
		printf("expected: the printed text is accepted by the parser\n");
		printf("got     : parse error\n");
		printf("VIOLATION: printed text is not accepted under the same schema\n");
		bad = 1;
	} else {
		dump("re-parsed", cfg2);
		if (!same(cfg1, cfg2)) {
			printf("VIOLATION: the re-parsed section has other keys/values than state 1\n");
			bad = 1;
		}
		text2 = print_cfg(cfg2);
		if (strcmp(text1, text2)) {
			printf("VIOLATION: printing the re-parsed configuration does not reproduce text 1:\n-----\n%s-----\n", text2);
			bad = 1;
		}
		free(text2);
	}

	free(text1);
	cfg_free(cfg1);
	cfg_free(cfg2);
	return bad;
}

int main(void)
{
	int bad = 0;

	/* control: plain keys survive */
	bad |= roundtrip("env { PATH = \"/bin\"\n lang = C }\n");
	/* a key with a blank: printed as  a b="v"  -> "missing equal sign after option 'a'" */
	bad |= roundtrip("env { \"a b\" = \"v\" }\n");
	/* a key that starts with '#': printed as  #x="w"  -> read back as a comment, the key is gone */
	bad |= roundtrip("env { first = 1\n '#x' = w\n }\n");
	/* the empty key: printed as  ="e"  -> unexpected token */
	bad |= roundtrip("env { \"\" = e }\n");

	return bad;
}
