/*
 * C05 / finding 2: with annotation support (CFGF_COMMENTS) the comment of an
 * option is printed as a C comment without looking at its text.  A comment that
 * contains the two bytes star-slash (legal in '#' and '//' comments, legal for
 * cfg_opt_setcomment()) ends the printed comment early, the rest of the comment
 * is read back as configuration items.
 *
 * exit 0: property held, exit 1: property violated
 */
#include <stdio.h>
#include <stdlib.h>
#include <string.h>
#include "confuse.h"

static cfg_opt_t opts[] = {
	CFG_INT("x", 0, CFGF_NONE),
	CFG_INT("y", 0, CFGF_NONE),
	CFG_END()
};

static char *print_cfg(cfg_t *cfg)
{
	char *buf = NULL;
	size_t len = 0;
	FILE *fp = open_memstream(&buf, &len);

	cfg_print(cfg, fp);
	fclose(fp);
	return buf;
}

/* returns 0 when the state of cfg survives print -> parse -> print -> parse -> print */
static int roundtrip(cfg_t *cfg, const char *what)
{
	cfg_t *cfg2, *cfg3;
	char *text1, *text2, *text3;
	int bad = 0;

	printf("=== %s\n", what);
	printf("state 1: x=%ld y=%ld comment(x)=[%s]\n", cfg_getint(cfg, "x"), cfg_getint(cfg, "y"),
	       cfg_getcomment(cfg, "x") ? cfg_getcomment(cfg, "x") : "(none)");
	text1 = print_cfg(cfg);
	printf("printed text 1:\n-----\n%s-----\n", text1);

	cfg2 = cfg_init(opts, CFGF_COMMENTS);
	if (cfg_parse_buf(cfg2, text1) != CFG_SUCCESS) {
		printf("expected: the printed text is accepted by the parser\n");
		printf("got     : parse error\n");
		printf("VIOLATION: printed text is not accepted under the same schema\n");
		bad = 1;
	}
	printf("expected after re-parse: x=%ld y=%ld\n", cfg_getint(cfg, "x"), cfg_getint(cfg, "y"));
	printf("got      after re-parse: x=%ld y=%ld\n", cfg_getint(cfg2, "x"), cfg_getint(cfg2, "y"));
	if (cfg_getint(cfg2, "x") != cfg_getint(cfg, "x") || cfg_getint(cfg2, "y") != cfg_getint(cfg, "y")) {
		printf("VIOLATION: the re-parsed configuration has other values\n");
		bad = 1;
	}

	if (!bad) {
		/* text 2 must be a fixed point */
		text2 = print_cfg(cfg2);
		cfg3 = cfg_init(opts, CFGF_COMMENTS);
		if (cfg_parse_buf(cfg3, text2) != CFG_SUCCESS) {
			printf("VIOLATION: text 2 is not accepted\n");
			bad = 1;
		} else {
			text3 = print_cfg(cfg3);
			if (strcmp(text2, text3)) {
				printf("VIOLATION: a further parse-and-print cycle changes the text\n");
				bad = 1;
			}
			free(text3);
		}
		cfg_free(cfg3);
		free(text2);
	}

	cfg_free(cfg2);
	free(text1);
	return bad;
}

int main(void)
{
	cfg_t *cfg;
	int bad = 0;

	/* (a) state reached by parsing: a one-line comment that mentions star-slash */
	cfg = cfg_init(opts, CFGF_COMMENTS);
	if (cfg_parse_buf(cfg, "# see foo/*/bar, was: y=7\nx = 1\n") != CFG_SUCCESS) {
		printf("setup: the input text was not accepted\n");
		return 2;
	}
	bad |= roundtrip(cfg, "(a) comment read from a '#' line");
	cfg_free(cfg);

	/* (b) state reached by the setter API */
	cfg = cfg_init(opts, CFGF_COMMENTS);
	cfg_setint(cfg, "x", 1);
	if (cfg_setcomment(cfg, "x", "glob is dir/*/*.conf") != CFG_SUCCESS) {
		printf("setup: cfg_setcomment() failed\n");
		return 2;
	}
	bad |= roundtrip(cfg, "(b) comment set with cfg_setcomment()");
	cfg_free(cfg);

	return bad;
}
