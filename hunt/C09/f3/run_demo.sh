#!/bin/sh
# usage: run_demo.sh <tree-root>    exit 0 iff the property held
set -u
ROOT=${1:?usage: run_demo.sh <tree-root>}
HERE=$(cd "$(dirname "$0")" && pwd)
TMP=$(mktemp -d) || exit 98
trap 'rm -rf "$TMP"' EXIT INT TERM

if [ -f "$ROOT/src/.libs/libconfuse.a" ]; then
	gcc -g -O0 -I"$ROOT/src" "$HERE/demo.c" "$ROOT/src/.libs/libconfuse.a" -o "$TMP/demo" || exit 97
else
	[ -f "$ROOT/src/lexer.c" ] || (cd "$ROOT/src" && flex -Pcfg_yy -olexer.c lexer.l) || exit 97
	gcc -g -O0 -w -DHAVE_CONFIG_H -DLOCALEDIR='"/x"' -I"$ROOT" -I"$ROOT/src" \
		"$HERE/demo.c" "$ROOT/src/confuse.c" "$ROOT/src/lexer.c" -o "$TMP/demo" || exit 97
fi
"$TMP/demo"
