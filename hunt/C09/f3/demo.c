/*
 * C09 / f3: under CFGF_NOCASE, cfg_addtsec() with a title that differs only in
 * case from an existing one neither fails (title taken) nor appends (title new):
 * it destroys the existing section and puts a fresh one in its place.
 */
#include <stdio.h>
#include <string.h>
#include "confuse.h"

int main(void)
{
	cfg_opt_t sub[] = { CFG_INT("x", 1, CFGF_NONE), CFG_END() };
	cfg_opt_t opts[] = { CFG_SEC("ts", sub, CFGF_MULTI | CFGF_TITLE), CFG_END() };
	cfg_t *cfg, *a, *b, *s0;
	const cfg_t *a_addr;
	unsigned n;
	int bad = 0;

	cfg = cfg_init(opts, CFGF_NOCASE);
	if (!cfg)
		return 99;

	a = cfg_addtsec(cfg, "ts", "Alpha");
	if (!a || cfg_setint(a, "x", 77) != 0)
		return 98;
	a_addr = a;
	printf("after add(\"Alpha\"), x=77 : size=%u title[0]=%s x=%ld\n", cfg_size(cfg, "ts"),
	       cfg_title(cfg_getnsec(cfg, "ts", 0)), cfg_getint(cfg_getnsec(cfg, "ts", 0), "x"));
	printf("lookup by title: gettsec(\"Alpha\")=%s gettsec(\"alpha\")=%s\n",
	       cfg_gettsec(cfg, "ts", "Alpha") ? "found" : "none", cfg_gettsec(cfg, "ts", "alpha") ? "found" : "none");

	b = cfg_addtsec(cfg, "ts", "alpha");
	n = cfg_size(cfg, "ts");
	s0 = cfg_getnsec(cfg, "ts", 0);

	printf("cfg_addtsec(cfg, \"ts\", \"alpha\") returned %s\n", b ? "a section" : "NULL");
	printf("expected: either NULL and {Alpha(x=77)} untouched            (titles keyed case-insensitively)\n"
	       "          or a new section and {Alpha(x=77), alpha(x=1)}    (titles keyed case-sensitively)\n");
	printf("got     : size=%u title[0]=%s x=%ld%s\n", n, cfg_title(s0), cfg_getint(s0, "x"),
	       n > 1 ? " ..." : "");

	if (!b) {
		/* add refused: nothing may have changed */
		if (n != 1 || strcmp(cfg_title(s0), "Alpha") || cfg_getint(s0, "x") != 77 || s0 != a_addr)
			bad = 1;
	} else {
		/* add accepted: it must have been appended after the untouched "Alpha" */
		if (n != 2 || strcmp(cfg_title(s0), "Alpha") || cfg_getint(s0, "x") != 77 ||
		    cfg_getnsec(cfg, "ts", 1) != b || strcmp(cfg_title(b), "alpha"))
			bad = 1;
	}
	/* in no case may the section "Alpha" that the caller still holds a pointer to be gone */
	if (cfg_gettsec(cfg, "ts", "Alpha") != a_addr) {
		printf("          section \"Alpha\" (with x=77) no longer exists; the cfg_t* returned for it dangles\n");
		bad = 1;
	}

	cfg_free(cfg);
	if (bad) {
		printf("VIOLATION: titled-section add replaced an existing section\n");
		return 1;
	}
	printf("OK\n");
	return 0;
}
