/*
 * C09 / f1: cfg_addtsec() on an option that is not a section ("wrong type")
 * must fail without effect.  Instead it stores the title text as the option's
 * value and then dereferences the value slot as a section pointer.
 */
#include <stdio.h>
#include <string.h>
#include <signal.h>
#include <setjmp.h>
#include "confuse.h"

static sigjmp_buf jb;
static void on_segv(int sig) { siglongjmp(jb, sig); }

int main(void)
{
	cfg_opt_t opts[] = {
		CFG_INT("i", 42, CFGF_NONE),
		CFG_END()
	};
	cfg_t *cfg, *sec = NULL;
	cfg_opt_t *opt;
	volatile int crashed = 0;
	int bad = 0;
	long v;

	setvbuf(stdout, NULL, _IONBF, 0);
	cfg = cfg_init(opts, CFGF_NONE);
	if (!cfg)
		return 99;
	opt = cfg_getopt(cfg, "i");

	printf("before: i=%ld size=%u modified=%d\n", cfg_getint(cfg, "i"), cfg_size(cfg, "i"),
	       !!(opt->flags & CFGF_MODIFIED));

	signal(SIGSEGV, on_segv);
	signal(SIGBUS, on_segv);
	if (sigsetjmp(jb, 1) == 0)
		sec = cfg_addtsec(cfg, "i", "5");	/* "i" is an integer option, not a section */
	else
		crashed = 1;
	signal(SIGSEGV, SIG_DFL);
	signal(SIGBUS, SIG_DFL);

	v = cfg_getint(cfg, "i");
	printf("expected: cfg_addtsec(cfg, \"i\", \"5\") returns NULL, i stays 42, modified stays 0\n");
	printf("got     : %s, i=%ld, modified=%d\n",
	       crashed ? "SIGSEGV inside cfg_addtsec()" : (sec ? "non-NULL section pointer" : "NULL"),
	       v, !!(opt->flags & CFGF_MODIFIED));

	if (crashed || sec)
		bad = 1;
	if (v != 42 || (opt->flags & CFGF_MODIFIED) || cfg_size(cfg, "i") != 1)
		bad = 1;

	if (bad) {
		printf("VIOLATION: wrong-type cfg_addtsec() did not fail without effect\n");
		return 1;	/* cfg is not freed on purpose: its state is corrupt */
	}
	cfg_free(cfg);
	printf("OK\n");
	return 0;
}
