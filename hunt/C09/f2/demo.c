/*
 * C09 / f2: an indexed setter on a list that still holds its declared
 * defaults throws the other defaults away (and writes to the wrong index).
 */
#include <stdio.h>
#include <string.h>
#include "confuse.h"

static int bad;

static void show_int(cfg_t *cfg, const char *what, unsigned exp_n, const long *exp)
{
	unsigned i, n = cfg_size(cfg, "il");

	printf("%s\n  expected: size=%u {", what, exp_n);
	for (i = 0; i < exp_n; i++)
		printf("%s%ld", i ? "," : "", exp[i]);
	printf("}\n  got     : size=%u {", n);
	for (i = 0; i < n; i++)
		printf("%s%ld", i ? "," : "", cfg_getnint(cfg, "il", i));
	printf("}\n");
	if (n != exp_n)
		bad = 1;
	for (i = 0; i < exp_n && i < n; i++)
		if (cfg_getnint(cfg, "il", i) != exp[i])
			bad = 1;
}

int main(void)
{
	cfg_opt_t opts[] = {
		CFG_INT_LIST("il", "{1, 2, 3}", CFGF_NONE),
		CFG_STR_LIST("sl", "{a, b, c}", CFGF_NONE),
		CFG_END()
	};
	static const long e1[] = { 1, 9, 3 }, e2[] = { 7, 2, 3 };
	cfg_t *cfg;
	int r;

	/* 1: replace the element at index 1 of the pristine default list */
	cfg = cfg_init(opts, CFGF_NONE);
	if (!cfg)
		return 99;
	r = cfg_setnint(cfg, "il", 9, 1);
	printf("cfg_setnint(cfg, \"il\", 9, 1) = %d\n", r);
	show_int(cfg, "after cfg_setnint(il, 9, index 1) on defaults {1,2,3}", 3, e1);
	if (r != 0)
		bad = 1;

	r = cfg_setnstr(cfg, "sl", "X", 2);
	printf("cfg_setnstr(cfg, \"sl\", \"X\", 2) = %d\n  expected: size=3 {a,b,X}\n  got     : size=%u {", r, cfg_size(cfg, "sl"));
	{
		unsigned i, n = cfg_size(cfg, "sl");
		for (i = 0; i < n; i++)
			printf("%s%s", i ? "," : "", cfg_getnstr(cfg, "sl", i));
		printf("}\n");
		if (n != 3 || strcmp(cfg_getnstr(cfg, "sl", 0), "a") || strcmp(cfg_getnstr(cfg, "sl", 1), "b")
		    || strcmp(cfg_getnstr(cfg, "sl", 2), "X"))
			bad = 1;
	}
	cfg_free(cfg);

	/* 2: cfg_setint() on a list: "only the first value (with index 0) is set" (confuse.h) */
	cfg = cfg_init(opts, CFGF_NONE);
	if (!cfg)
		return 99;
	r = cfg_setint(cfg, "il", 7);
	printf("cfg_setint(cfg, \"il\", 7) = %d\n", r);
	show_int(cfg, "after cfg_setint(il, 7) on defaults {1,2,3}", 3, e2);
	cfg_free(cfg);

	/* 3: control - the same call on the same values once they are no longer 'defaults' behaves */
	cfg = cfg_init(opts, CFGF_NONE);
	if (!cfg)
		return 99;
	cfg_setlist(cfg, "il", 3, 1, 2, 3);
	cfg_setnint(cfg, "il", 9, 1);
	show_int(cfg, "control: cfg_setlist(il,1,2,3) then cfg_setnint(il, 9, index 1)", 3, e1);
	cfg_free(cfg);

	if (bad) {
		printf("VIOLATION: indexed setter on a defaulted list is not a store update at that index\n");
		return 1;
	}
	printf("OK\n");
	return 0;
}
