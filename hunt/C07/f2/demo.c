/*
 * C07 / f2: cfg_free() of an independent (root) context destroys the scanner
 * that is shared by all contexts (cfg_yylex_destroy()), even while another
 * context is in the middle of cfg_parse*().  A function callback that checks
 * its argument with a short-lived helper context is enough.  If the running
 * parse is inside an included file, the FILE handle and the saved filename on
 * cfg_include_stack[] and the scanner buffer of the outer source are never
 * released any more (cfg_scan_fp_end() no longer recognises them), and the
 * rest of the input is silently read from stdin instead.
 *
 * exit 0: property held; non-zero: violated (descriptor leaked; with ASan
 * also a LeakSanitizer report for the scanner buffer).
 */
#include <stdio.h>
#include <stdlib.h>
#include <string.h>
#include <dirent.h>
#include "confuse.h"

static int open_fds(void)
{
	int n = 0;
	DIR *d = opendir("/proc/self/fd");
	struct dirent *e;

	if (!d)
		return -1;
	while ((e = readdir(d)))
		n++;
	closedir(d);
	return n;
}

/* check("text"): accept the call iff "text" is a valid mini configuration */
static int check(cfg_t *cfg, cfg_opt_t *opt, int argc, const char **argv)
{
	cfg_opt_t o[] = { CFG_INT("z", 0, CFGF_NONE), CFG_END() };
	cfg_t *tmp;
	int rc;

	(void)opt;
	if (argc != 1)
		return 1;
	tmp = cfg_init(o, CFGF_NONE);
	if (!tmp)
		return 1;
	rc = cfg_parse_buf(tmp, argv[0]);
	cfg_free(tmp);		/* everything the helper context acquired is released here */
	if (rc != CFG_SUCCESS)
		cfg_error(cfg, "check(): bad snippet");
	return rc != CFG_SUCCESS;
}

int main(void)
{
	cfg_opt_t opts[] = {
		CFG_INT("x", 0, CFGF_NONE),
		CFG_INT("y", 0, CFGF_NONE),
		CFG_FUNC("include", cfg_include),
		CFG_FUNC("check", check),
		CFG_END()
	};
	cfg_t *cfg;
	FILE *f;
	int fd0, fd1, rc, bad = 0;
	long x, y;

	f = fopen("inc.conf", "w");
	if (!f)
		return 2;
	fputs("x = 1\ncheck(\"z = 4\")\ny = 2\n", f);
	fclose(f);

	fd0 = open_fds();
	cfg = cfg_init(opts, CFGF_NONE);
	if (!cfg)
		return 2;
	rc = cfg_parse_buf(cfg, "include(\"inc.conf\")\nx = 7\n");
	x = cfg_getint(cfg, "x");
	y = cfg_getint(cfg, "y");
	cfg_free(cfg);
	fd1 = open_fds();

	printf("expected: rc=0 x=7 y=2, open descriptors after cfg_free() == before (%d)\n", fd0);
	printf("got:      rc=%d x=%ld y=%ld, open descriptors after cfg_free() = %d\n", rc, x, y, fd1);

	if (fd1 != fd0) {
		printf("VIOLATION: %d file handle(s) opened by cfg_include() were never closed\n", fd1 - fd0);
		bad = 1;
	}
	if (rc != CFG_SUCCESS || x != 7 || y != 2) {
		printf("(also: the rest of inc.conf and of the buffer was not parsed)\n");
		bad = 1;
	}
	fflush(stdout);
	return bad;
}
