#!/bin/sh
# usage: run_demo.sh <tree-root>   -- exits 0 iff the property held
T=${1:?usage: run_demo.sh <tree-root>}
T=$(cd "$T" && pwd) || exit 2
HERE=$(cd "$(dirname "$0")" && pwd)
D=$(mktemp -d) || exit 2
trap 'rm -rf "$D"' EXIT
LEX="$T/src/lexer.c"
if [ ! -f "$LEX" ]; then
    flex -Pcfg_yy -o"$D/lexer.c" "$T/src/lexer.l" || exit 2
    LEX="$D/lexer.c"
fi
gcc -g -O1 -w -fsanitize=address,undefined -fno-omit-frame-pointer \
    -DHAVE_CONFIG_H -DLOCALEDIR='"/x"' -I"$T" -I"$T/src" \
    "$HERE/demo.c" "$T/src/confuse.c" "$LEX" -o "$D/demo" || exit 2
cd "$D" || exit 2
ASAN_OPTIONS=detect_leaks=1:abort_on_error=0 ./demo </dev/null
rc=$?
if [ $rc -eq 0 ]; then echo "run_demo: property held"; else echo "run_demo: property VIOLATED (exit $rc)"; fi
exit $rc
