/*
 * C07 / f1: a section option that happens to be called "root" makes
 * cfg_free() tear down the shared scanner (cfg_yylex_destroy()) although only
 * a sub-section is being released.  When that release happens in the middle
 * of a parse (CFGF_DEPRECATED|CFGF_DROP, or a titled section that is replaced)
 * the parser goes on using the token text that lived in the released scanner
 * buffer: heap-use-after-free.
 *
 * exit 0: property held; non-zero / sanitizer abort: violated.
 */
#include <stdio.h>
#include <string.h>
#include "confuse.h"

int main(void)
{
	cfg_opt_t sub[] = {
		CFG_INT("a", 1, CFGF_NONE),
		CFG_END()
	};
	cfg_opt_t opts[] = {
		/* an obsolete section that is still accepted but dropped */
		CFG_SEC("root", sub, CFGF_DEPRECATED | CFGF_DROP),
		CFG_INT("x", 0, CFGF_NONE),
		CFG_END()
	};
	cfg_t *cfg;
	int rc, bad = 0;
	long x;

	cfg = cfg_init(opts, CFGF_NONE);
	if (!cfg)
		return 2;

	printf("expected: parse accepted (rc=0), x=5, section 'root' dropped, no sanitizer report\n");
	fflush(stdout);

	rc = cfg_parse_buf(cfg, "root { a = 2 }\nx = 5\n");
	x = cfg_getint(cfg, "x");
	printf("got:      rc=%d x=%ld size(root)=%u\n", rc, x, cfg_size(cfg, "root"));

	if (rc != CFG_SUCCESS || x != 5 || cfg_size(cfg, "root") != 0)
		bad = 1;

	cfg_free(cfg);
	fflush(stdout);
	return bad;
}
