/*
 * C07 / f3: the text of a quoted token lives in one global buffer
 * (lexer.l cfg_qstring) that cfg_scan_fp_end() frees unconditionally.  A parse
 * that is started from a callback of a running parse (here: a string option's
 * parse callback that checks its value with a second context) therefore frees
 * the token text the outer parse has handed out and is still going to use:
 * cfg_setopt() strdup()s the released buffer -> heap-use-after-free.
 *
 * exit 0: property held; non-zero / sanitizer abort: violated.
 */
#include <stdio.h>
#include <stdlib.h>
#include <string.h>
#include "confuse.h"

static cfg_t *inner;

/* the value of "snippet" must itself be a valid mini configuration */
static int snippet_cb(cfg_t *cfg, cfg_opt_t *opt, const char *value, void *result)
{
	(void)opt;
	if (cfg_parse_buf(inner, value) != CFG_SUCCESS) {
		cfg_error(cfg, "bad snippet");
		return -1;
	}
	*(const char **)result = value;	/* accepted unchanged, the library copies it */
	return 0;
}

int main(void)
{
	cfg_opt_t in[] = { CFG_INT("z", 0, CFGF_NONE), CFG_END() };
	cfg_opt_t opts[] = { CFG_STR_CB("snippet", NULL, CFGF_NONE, snippet_cb), CFG_END() };
	cfg_t *cfg;
	const char *s;
	int rc, bad = 0;

	inner = cfg_init(in, CFGF_NONE);
	cfg = cfg_init(opts, CFGF_NONE);
	if (!inner || !cfg)
		return 2;

	printf("expected: rc=0 snippet='z = 4' z=4, no sanitizer report\n");
	fflush(stdout);

	rc = cfg_parse_buf(cfg, "snippet = \"z = 4\"\n");
	s = cfg_getstr(cfg, "snippet");
	printf("got:      rc=%d snippet='%s' z=%ld\n", rc, s ? s : "(null)", cfg_getint(inner, "z"));
	if (rc != CFG_SUCCESS || !s || strcmp(s, "z = 4") != 0 || cfg_getint(inner, "z") != 4)
		bad = 1;

	cfg_free(cfg);
	cfg_free(inner);
	fflush(stdout);
	return bad;
}
