/*
 * C13 finding 1: after include() returns, diagnostics inside a re-opened
 * (non-MULTI) section still name the *included* file.
 *
 * Usage: demo <scratch-dir>      (the directory must exist and be writable)
 * Exit status 0 = property held, 1 = violated, 2 = setup problem.
 */
#include <stdio.h>
#include <stdlib.h>
#include <string.h>
#include <stdarg.h>
#include "confuse.h"

static char seen_file[4096];
static int  seen_line;
static char seen_msg[256];
static int  nerr;

static void on_error(cfg_t *cfg, const char *fmt, va_list ap)
{
	vsnprintf(seen_msg, sizeof(seen_msg), fmt, ap);
	snprintf(seen_file, sizeof(seen_file), "%s", cfg->filename ? cfg->filename : "(null)");
	seen_line = cfg->line;
	nerr++;
}

static int where(cfg_t *cfg, cfg_opt_t *opt, int argc, const char **argv)
{
	(void)opt; (void)argc; (void)argv;
	printf("  where() called at %s:%d\n", cfg->filename ? cfg->filename : "(null)", cfg->line);
	return 0;
}

static void put(const char *path, const char *text)
{
	FILE *fp = fopen(path, "w");
	if (!fp) { perror(path); exit(2); }
	fputs(text, fp);
	fclose(fp);
}

static int run(const char *mainfile, const char *expect_file, int expect_line)
{
	cfg_opt_t sec_opts[] = {
		CFG_INT("x", 0, CFGF_NONE),
		CFG_FUNC("where", where),
		CFG_END()
	};
	cfg_opt_t opts[] = {
		CFG_INT("a", 0, CFGF_NONE),
		/* a single section without an implicit instance */
		CFG_SEC("nd", sec_opts, CFGF_NODEFAULT),
		CFG_FUNC("include", cfg_include),
		CFG_END()
	};
	cfg_t *cfg = cfg_init(opts, CFGF_NONE);
	int rc, bad;

	if (!cfg) exit(2);
	cfg_set_error_function(cfg, on_error);
	nerr = 0; seen_file[0] = 0; seen_line = 0; seen_msg[0] = 0;

	rc = cfg_parse(cfg, mainfile);
	printf("  cfg_parse(%s) = %d, %d diagnostic(s)\n", mainfile, rc, nerr);
	printf("  expected diagnostic at %s:%d\n", expect_file, expect_line);
	printf("  got      diagnostic at %s:%d  (%s)\n", seen_file, seen_line, seen_msg);
	bad = rc != CFG_PARSE_ERROR || nerr != 1 || strcmp(seen_file, expect_file) || seen_line != expect_line;
	cfg_free(cfg);
	return bad;
}

int main(int argc, char **argv)
{
	char inc[4096], mainf[4096], flat[4096], text[8192];
	int bad_flat, bad_inc;

	setvbuf(stdout, NULL, _IONBF, 0);
	if (argc < 2) { fprintf(stderr, "usage: %s <scratch-dir>\n", argv[0]); return 2; }
	snprintf(inc, sizeof(inc), "%s/inc.conf", argv[1]);
	snprintf(mainf, sizeof(mainf), "%s/main.conf", argv[1]);
	snprintf(flat, sizeof(flat), "%s/flat.conf", argv[1]);

	/* the included file: one complete item */
	put(inc, "nd { x = 1 }\n");

	/* the including file: the error is on ITS line 6, after the include returned */
	snprintf(text, sizeof(text),
		 "a = 1\n"
		 "include(\"%s\")\n"
		 "a = 2\n"
		 "nd {\n"
		 "  where()\n"
		 "  bogus = 1\n"
		 "}\n", inc);
	put(mainf, text);

	/* the same text with the contents of inc.conf written in place */
	put(flat,
	    "a = 1\n"
	    "nd { x = 1 }\n"
	    "a = 2\n"
	    "nd {\n"
	    "  where()\n"
	    "  bogus = 1\n"
	    "}\n");

	printf("flat text (reference):\n");
	bad_flat = run(flat, flat, 6);
	printf("include-split text:\n");
	bad_inc = run(mainf, mainf, 6);

	if (bad_flat) { printf("reference run misbehaved, demo inconclusive\n"); return 2; }
	if (bad_inc) {
		printf("VIOLATED: after include() returned, the including source's file name was not restored for section 'nd'\n");
		return 1;
	}
	printf("property held\n");
	return 0;
}
