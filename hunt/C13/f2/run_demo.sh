#!/bin/sh
# usage: run_demo.sh <tree-root>    exit 0 iff the property held
set -u
ROOT=${1:?usage: run_demo.sh <tree-root>}
HERE=$(cd "$(dirname "$0")" && pwd)
TMP=$(mktemp -d) || exit 2
trap 'rm -rf "$TMP"' EXIT
if [ ! -f "$ROOT/src/lexer.c" ]; then (cd "$ROOT/src" && flex -Pcfg_yy -olexer.c lexer.l) || exit 2; fi
gcc -g -fsanitize=address,undefined -DHAVE_CONFIG_H -DLOCALEDIR='"/x"' -I"$ROOT" -I"$ROOT/src" \
    "$HERE/demo.c" "$ROOT/src/confuse.c" "$ROOT/src/lexer.c" -o "$TMP/demo" 2>"$TMP/build.log" || { cat "$TMP/build.log"; exit 2; }
mkdir "$TMP/work"
# the scanner buffers orphaned by the defect are reported by LeakSanitizer as well; the verdict is the demo's own exit status
ASAN_OPTIONS=detect_leaks=0 "$TMP/demo" "$TMP/work" </dev/null
