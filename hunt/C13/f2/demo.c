/*
 * C13 finding 2: a function callback inside an included file that loads and
 * frees a *separate* configuration context makes the rest of the included
 * file and of the including file disappear, leaks the included FILE and
 * permanently costs one level of include depth.  Ten such parses later
 * include() does not work at all any more in the process.
 *
 * Usage: demo <scratch-dir>
 * Exit status 0 = property held, 1 = violated, 2 = setup problem.
 */
#include <stdio.h>
#include <stdlib.h>
#include <string.h>
#include <stdarg.h>
#include <dirent.h>
#include "confuse.h"

static char last_msg[512];
static int nerr;

static void on_error(cfg_t *cfg, const char *fmt, va_list ap)
{
	char m[400];
	vsnprintf(m, sizeof(m), fmt, ap);
	snprintf(last_msg, sizeof(last_msg), "%s:%d: %s", cfg->filename ? cfg->filename : "(null)", cfg->line, m);
	nerr++;
}

static int open_fds(void)
{
	int n = 0;
	DIR *d = opendir("/proc/self/fd");
	struct dirent *e;
	if (!d) return -1;
	while ((e = readdir(d)))
		if (e->d_name[0] != '.')
			n++;
	closedir(d);
	return n - 1;		/* the DIR itself */
}

/* plugin("text"): parse some unrelated settings with their own context */
static int plugin_loaded;
static int cb_plugin(cfg_t *cfg, cfg_opt_t *opt, int argc, const char **argv)
{
	cfg_opt_t popts[] = { CFG_INT("z", 0, CFGF_NONE), CFG_END() };
	cfg_t *p;
	(void)cfg; (void)opt;
	if (argc != 1) return 1;
	p = cfg_init(popts, CFGF_NONE);
	if (!p) return 1;
	if (cfg_parse_buf(p, argv[0]) == CFG_SUCCESS && cfg_getint(p, "z") == 5)
		plugin_loaded++;
	cfg_free(p);		/* <- tears down the scanner of the parse in progress */
	return 0;
}

static cfg_opt_t opts[] = {
	CFG_INT("a", 0, CFGF_NONE),
	CFG_INT("b", 0, CFGF_NONE),
	CFG_INT("c", 0, CFGF_NONE),
	CFG_FUNC("plugin", cb_plugin),
	CFG_FUNC("include", cfg_include),
	CFG_END()
};

static void put(const char *path, const char *text)
{
	FILE *fp = fopen(path, "w");
	if (!fp) { perror(path); exit(2); }
	fputs(text, fp);
	fclose(fp);
}

int main(int argc, char **argv)
{
	char inc[4096], plain[4096], mainf[4096], main2[4096], text[8192];
	cfg_t *cfg;
	int rc, i, bad = 0, fds0, fds1;

	setvbuf(stdout, NULL, _IONBF, 0);
	if (argc < 2) { fprintf(stderr, "usage: %s <scratch-dir>\n", argv[0]); return 2; }
	/* whatever the broken scanner falls back to must be empty, not the terminal */
	if (!freopen("/dev/null", "r", stdin)) return 2;

	snprintf(inc, sizeof(inc), "%s/inc.conf", argv[1]);
	snprintf(plain, sizeof(plain), "%s/plain.conf", argv[1]);
	snprintf(mainf, sizeof(mainf), "%s/main.conf", argv[1]);
	snprintf(main2, sizeof(main2), "%s/main2.conf", argv[1]);

	put(inc, "a = 1\nplugin(\"z = 5\")\nb = 2\n");
	put(plain, "b = 2\n");
	snprintf(text, sizeof(text), "include(\"%s\")\nc = 3\n", inc);
	put(mainf, text);
	snprintf(text, sizeof(text), "include(\"%s\")\nc = 3\n", plain);
	put(main2, text);

	/* ---- part 1: one parse ---- */
	fds0 = open_fds();
	cfg = cfg_init(opts, CFGF_NONE);
	cfg_set_error_function(cfg, on_error);
	rc = cfg_parse(cfg, mainf);
	printf("part 1: main.conf = include(inc.conf); c = 3      inc.conf = a = 1; plugin(\"z = 5\"); b = 2\n");
	printf("  expected: rc=0 plugin_loaded=1 a=1 b=2 c=3\n");
	printf("  got     : rc=%d plugin_loaded=%d a=%ld b=%ld c=%ld  (%d diagnostics%s%s)\n",
	       rc, plugin_loaded, cfg_getint(cfg, "a"), cfg_getint(cfg, "b"), cfg_getint(cfg, "c"),
	       nerr, nerr ? ": " : "", nerr ? last_msg : "");
	if (rc != CFG_SUCCESS || cfg_getint(cfg, "a") != 1 || cfg_getint(cfg, "b") != 2 || cfg_getint(cfg, "c") != 3)
		bad = 1;
	cfg_free(cfg);
	fds1 = open_fds();
	printf("  open descriptors before/after the parse: %d / %d (expected equal)\n", fds0, fds1);
	if (fds0 != fds1)
		bad = 1;

	/* ---- part 2: nine more of the same, then a perfectly ordinary include ---- */
	for (i = 0; i < 9; i++) {
		cfg = cfg_init(opts, CFGF_NONE);
		cfg_set_error_function(cfg, on_error);
		cfg_parse(cfg, mainf);
		cfg_free(cfg);
	}
	nerr = 0; last_msg[0] = 0;
	cfg = cfg_init(opts, CFGF_NONE);
	cfg_set_error_function(cfg, on_error);
	rc = cfg_parse(cfg, main2);
	printf("part 2: after ten such parses, a fresh context parses main2.conf = include(plain.conf); c = 3\n");
	printf("  expected: rc=0 b=2 c=3\n");
	printf("  got     : rc=%d b=%ld c=%ld%s%s\n", rc, cfg_getint(cfg, "b"), cfg_getint(cfg, "c"),
	       nerr ? "  diagnostic: " : "", nerr ? last_msg : "");
	if (rc != CFG_SUCCESS || cfg_getint(cfg, "b") != 2 || cfg_getint(cfg, "c") != 3)
		bad = 1;
	cfg_free(cfg);
	printf("  open descriptors now: %d (started with %d)\n", open_fds(), fds0);

	if (bad) {
		printf("VIOLATED: parsing did not continue in the including source and include capacity/descriptors were lost for good\n");
		return 1;
	}
	printf("property held\n");
	return 0;
}
