/*
 * C01 / finding 3: a section whose closing brace is missing is accepted.
 * When the input ends inside a section body (at any nesting depth) while the
 * parser expects the next item, cfg_parse_buf() returns CFG_SUCCESS instead of
 * reporting "premature end of file", as it does for every other construct
 * that is still open at the end of the input (list, function call, value,
 * and even an *unknown* section skipped under CFGF_IGNORE_UNKNOWN).
 *
 * exit 0: property holds, exit 1: property violated
 */
#include <stdarg.h>
#include <stdio.h>
#include <string.h>
#include "confuse.h"

static int bad;

static void report(cfg_t *cfg, const char *fmt, va_list ap)
{
	(void)cfg;
	printf("    [libconfuse] ");
	vprintf(fmt, ap);
	printf("\n");
}

static void check(const char *text, cfg_flag_t flags, int want_rc)
{
	cfg_opt_t deep[] = {
		CFG_INT("y", 7, CFGF_NONE),
		CFG_END()
	};
	cfg_opt_t sub[] = {
		CFG_INT("x", 7, CFGF_NONE),
		CFG_SEC("in", deep, CFGF_NONE),
		CFG_END()
	};
	cfg_opt_t opts[] = {
		CFG_INT("a", 1, CFGF_NONE),
		CFG_INT_LIST("l", "{1, 2}", CFGF_NONE),
		CFG_SEC("sec", sub, CFGF_NONE),
		CFG_SEC("m", sub, CFGF_MULTI | CFGF_TITLE),
		CFG_END()
	};
	cfg_t *cfg = cfg_init(opts, flags);
	int rc;

	if (!cfg) {
		printf("cfg_init failed\n");
		bad = 1;
		return;
	}
	cfg_set_error_function(cfg, report);

	printf("text: <<%s>>%s\n", text, flags & CFGF_IGNORE_UNKNOWN ? "  (CFGF_IGNORE_UNKNOWN)" : "");
	rc = cfg_parse_buf(cfg, text);
	printf("    cfg_parse_buf: expected %s, got %s%s\n",
	       want_rc == CFG_SUCCESS ? "CFG_SUCCESS" : "CFG_PARSE_ERROR",
	       rc == CFG_SUCCESS ? "CFG_SUCCESS" : "CFG_PARSE_ERROR", rc == want_rc ? "" : "   <-- VIOLATION");
	if (rc != want_rc)
		bad = 1;
	cfg_free(cfg);
}

int main(void)
{
	printf("== references: what the parser does with other unbalanced / unfinished text ==\n");
	check("sec { x = 1 }", CFGF_NONE, CFG_SUCCESS);			/* well-formed */
	check("sec { x = 1 } }", CFGF_NONE, CFG_PARSE_ERROR);		/* one '}' too many: rejected */
	check("l = {1, 2", CFGF_NONE, CFG_PARSE_ERROR);			/* open list: rejected */
	check("sec { x =", CFGF_NONE, CFG_PARSE_ERROR);			/* open assignment: rejected */
	check("bogus { x = 1", CFGF_IGNORE_UNKNOWN, CFG_PARSE_ERROR);	/* open *unknown* section: rejected */

	printf("== one '}' too few ==\n");
	check("sec { x = 1", CFGF_NONE, CFG_PARSE_ERROR);
	check("sec {", CFGF_NONE, CFG_PARSE_ERROR);
	check("sec { x = 1 in { y = 2", CFGF_NONE, CFG_PARSE_ERROR);	/* two levels left open */
	check("sec { in { y = 2 }\n", CFGF_NONE, CFG_PARSE_ERROR);	/* inner closed, outer not */
	check("m \"t\" { x = 1\n", CFGF_NONE, CFG_PARSE_ERROR);		/* titled multi section */
	check("sec { x = 1", CFGF_IGNORE_UNKNOWN, CFG_PARSE_ERROR);	/* known section, same flag as reference */

	printf("%s\n", bad ? "RESULT: property VIOLATED" : "RESULT: property holds");
	return bad;
}
