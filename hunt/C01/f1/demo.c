/*
 * C01 / finding 1: a re-opened single section declared with CFGF_NODEFAULT is
 * not merged: re-opening it re-runs the default initialisation on the live
 * instance, which overwrites scalars set earlier with their declared defaults
 * and appends the list defaults a second time.
 *
 * exit 0: property holds, exit 1: property violated
 */
#include <stdio.h>
#include <string.h>
#include "confuse.h"

static int bad;

static void expect_int(const char *what, long got, long want)
{
	printf("%-28s expected %ld, got %ld%s\n", what, want, got, got == want ? "" : "   <-- VIOLATION");
	if (got != want)
		bad = 1;
}

static void run(const char *label, cfg_flag_t secflags)
{
	cfg_opt_t sub[] = {
		CFG_INT("a", 7, CFGF_NONE),
		CFG_INT("b", 8, CFGF_NONE),
		CFG_STR("s", "dflt", CFGF_NONE),
		CFG_INT_LIST("l", "{1, 2}", CFGF_NONE),
		CFG_END()
	};
	cfg_opt_t opts[] = {
		CFG_SEC("sec", sub, secflags),
		CFG_END()
	};
	/* 'sec' is opened twice: the second block must be merged into the first */
	const char *text =
		"sec { a = 5  s = \"text\"  l += {3} }\n"
		"sec { b = 1 }\n";
	cfg_t *cfg, *sec;
	unsigned int i;
	int rc;

	printf("--- %s ---\n%s", label, text);
	cfg = cfg_init(opts, CFGF_NONE);
	if (!cfg) {
		printf("cfg_init failed\n");
		bad = 1;
		return;
	}
	rc = cfg_parse_buf(cfg, text);
	expect_int("cfg_parse_buf()", rc, CFG_SUCCESS);
	expect_int("cfg_size(sec)", cfg_size(cfg, "sec"), 1);
	sec = cfg_getsec(cfg, "sec");
	if (!sec) {
		printf("no section\n");
		bad = 1;
		cfg_free(cfg);
		return;
	}
	expect_int("sec.a  (a = 5)", cfg_getint(sec, "a"), 5);
	expect_int("sec.b  (b = 1)", cfg_getint(sec, "b"), 1);
	printf("%-28s expected \"text\", got \"%s\"%s\n", "sec.s  (s = \"text\")", cfg_getstr(sec, "s"),
	       strcmp(cfg_getstr(sec, "s"), "text") ? "   <-- VIOLATION" : "");
	if (strcmp(cfg_getstr(sec, "s"), "text"))
		bad = 1;
	expect_int("size of sec.l ({1,2} += {3})", cfg_size(sec, "l"), 3);
	printf("sec.l = {");
	for (i = 0; i < cfg_size(sec, "l"); i++)
		printf("%s%ld", i ? ", " : "", cfg_getnint(sec, "l", i));
	printf("}   (expected {1, 2, 3})\n");
	cfg_free(cfg);
}

int main(void)
{
	/* reference: the same text on a plain single section is merged correctly */
	run("single section, CFGF_NONE (reference)", CFGF_NONE);
	run("single section, CFGF_NODEFAULT", CFGF_NODEFAULT);

	printf("%s\n", bad ? "RESULT: property VIOLATED" : "RESULT: property holds");
	return bad;
}
