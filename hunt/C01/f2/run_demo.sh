#!/bin/sh
# usage: run_demo.sh <tree-root>   -- exit 0 iff the property held
set -u
ROOT=${1:?usage: run_demo.sh <tree-root>}
ROOT=$(cd "$ROOT" && pwd) || exit 2
HERE=$(cd "$(dirname "$0")" && pwd)
TMP=$(mktemp -d) || exit 2
trap 'rm -rf "$TMP"' EXIT INT TERM

if [ -f "$ROOT/src/.libs/libconfuse.a" ]; then
	gcc -g -O0 -I"$ROOT/src" -o "$TMP/demo" "$HERE/demo.c" "$ROOT/src/.libs/libconfuse.a" || exit 2
else
	[ -f "$ROOT/src/lexer.c" ] || (cd "$ROOT/src" && flex -Pcfg_yy -olexer.c lexer.l) || exit 2
	gcc -g -O0 -w -DHAVE_CONFIG_H -DLOCALEDIR='"/x"' -I"$ROOT" -I"$ROOT/src" \
		-o "$TMP/demo" "$HERE/demo.c" "$ROOT/src/confuse.c" "$ROOT/src/lexer.c" || exit 2
fi

cd "$TMP" && ./demo
