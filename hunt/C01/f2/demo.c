/*
 * C01 / finding 2: CFGF_KEYSTRVAL (free-form key=value section) leaks into every
 * section nested below the free-form section, although those are declared with
 * a fixed set of options.  Text that uses an undeclared option inside such a
 * nested section must be rejected, but it is accepted and the undeclared
 * option is materialised as a new string option.
 *
 * exit 0: property holds, exit 1: property violated
 */
#include <stdarg.h>
#include <stdio.h>
#include <string.h>
#include "confuse.h"

static int bad;

static void quiet(cfg_t *cfg, const char *fmt, va_list ap)
{
	(void)cfg;
	printf("    [libconfuse] ");
	vprintf(fmt, ap);
	printf("\n");
}

static cfg_t *mk(void)
{
	/* "inner" is an ordinary section with exactly one declared option */
	static cfg_opt_t inner[] = {
		CFG_INT("x", 7, CFGF_NONE),
		CFG_END()
	};
	static cfg_opt_t holder[] = {
		CFG_SEC("inner", inner, CFGF_NONE),
		CFG_END()
	};
	static cfg_opt_t opts[] = {
		CFG_SEC("plain", holder, CFGF_NONE),		/* ordinary section  */
		CFG_SEC("env", holder, CFGF_KEYSTRVAL),		/* free-form section */
		CFG_END()
	};
	cfg_t *cfg = cfg_init(opts, CFGF_NONE);

	if (cfg)
		cfg_set_error_function(cfg, quiet);
	return cfg;
}

static void check(const char *text, int want_rc, const char *secpath)
{
	cfg_t *cfg = mk(), *sec;
	int rc;
	unsigned int i;

	if (!cfg) {
		printf("cfg_init failed\n");
		bad = 1;
		return;
	}
	printf("text: %s\n", text);
	rc = cfg_parse_buf(cfg, text);
	printf("    cfg_parse_buf: expected %s, got %s%s\n",
	       want_rc == CFG_SUCCESS ? "CFG_SUCCESS" : "CFG_PARSE_ERROR",
	       rc == CFG_SUCCESS ? "CFG_SUCCESS" : "CFG_PARSE_ERROR", rc == want_rc ? "" : "   <-- VIOLATION");
	if (rc != want_rc)
		bad = 1;

	sec = cfg_getsec(cfg, secpath);
	if (sec) {
		printf("    options of %s (declared: x):", secpath);
		for (i = 0; i < cfg_num(sec); i++)
			printf(" %s", cfg_opt_name(cfg_getnopt(sec, i)));
		printf("%s\n", cfg_num(sec) == 1 ? "" : "   <-- VIOLATION (undeclared option created)");
		if (cfg_num(sec) != 1)
			bad = 1;
	}
	cfg_free(cfg);
}

int main(void)
{
	/* legal uses: free-form keys directly in env, declared option in env|inner */
	check("env { anykey = anyvalue  inner { x = 1 } }", CFG_SUCCESS, "env|inner");

	/* reference: an undeclared option in an ordinary nested section is rejected */
	check("plain { inner { bogus = 1 } }", CFG_PARSE_ERROR, "plain|inner");

	/* 'inner' is NOT declared CFGF_KEYSTRVAL, so 'bogus' is just as undeclared here */
	check("env { inner { bogus = 1 } }", CFG_PARSE_ERROR, "env|inner");

	printf("%s\n", bad ? "RESULT: property VIOLATED" : "RESULT: property holds");
	return bad;
}
