/*
 * C06 / f2: an error in an INCLUDED file, inside a sub-section that already
 * existed when the include started, is attributed to the INCLUDING file
 * (with the line number of the included file).
 *
 *   main.conf:  1  # main
 *               2  server {
 *               3    include("<dir>/inc.conf")
 *               4  }
 *   inc.conf:   1  # included
 *               2
 *               3  limits {
 *               4    max = notanumber        <-- the error
 *               5  }
 *
 * 'server' is a CFGF_MULTI section, 'limits' an ordinary single sub-section.
 *
 * usage: demo <scratch-dir>
 */
#include <stdio.h>
#include <stdlib.h>
#include <string.h>
#include <stdarg.h>
#include "confuse.h"

static int ndiag;
static char got_file[1024];
static int got_line;
static char got_msg[512];

static void errfn(cfg_t *cfg, const char *fmt, va_list ap)
{
	if (ndiag++ == 0) {
		vsnprintf(got_msg, sizeof(got_msg), fmt, ap);
		snprintf(got_file, sizeof(got_file), "%s", cfg->filename ? cfg->filename : "(null)");
		got_line = cfg->line;
	}
}

static cfg_t *mkcfg(void)
{
	static cfg_opt_t limits_opts[] = {
		CFG_INT("max", 0, CFGF_NONE),
		CFG_END()
	};
	static cfg_opt_t server_opts[] = {
		CFG_INT("port", 0, CFGF_NONE),
		CFG_SEC("limits", limits_opts, CFGF_NONE),
		CFG_FUNC("include", cfg_include),
		CFG_END()
	};
	static cfg_opt_t opts[] = {
		CFG_SEC("server", server_opts, CFGF_MULTI),
		CFG_FUNC("include", cfg_include),
		CFG_END()
	};
	cfg_t *cfg = cfg_init(opts, CFGF_NONE);

	if (!cfg)
		exit(99);
	cfg_set_error_function(cfg, errfn);
	return cfg;
}

static void put(const char *path, const char *text)
{
	FILE *fp = fopen(path, "w");

	if (!fp)
		exit(99);
	fputs(text, fp);
	fclose(fp);
}

static int check(const char *what, int rc, const char *exp_file, int exp_line)
{
	int bad = 0;

	printf("%s\n", what);
	printf("  expected: rc=%d (CFG_PARSE_ERROR), >=1 diagnostic, file=\"%s\", line=%d\n",
	       CFG_PARSE_ERROR, exp_file, exp_line);
	printf("  got     : rc=%d, %d diagnostic(s), file=\"%s\", line=%d, message=\"%s\"\n",
	       rc, ndiag, got_file, got_line, got_msg);
	if (rc != CFG_PARSE_ERROR || ndiag < 1 || strcmp(got_file, exp_file) != 0 || got_line != exp_line)
		bad = 1;
	printf("  => %s\n", bad ? "VIOLATION" : "ok");
	return bad;
}

int main(int argc, char **argv)
{
	char mainp[900], incp[900], text[2048];
	cfg_t *cfg;
	int rc, bad = 0;

	if (argc < 2) {
		fprintf(stderr, "usage: %s <scratch-dir>\n", argv[0]);
		return 99;
	}
	snprintf(mainp, sizeof(mainp), "%s/main.conf", argv[1]);
	snprintf(incp, sizeof(incp), "%s/inc.conf", argv[1]);

	snprintf(text, sizeof(text), "# main\nserver {\n  include(\"%s\")\n}\n", incp);
	put(mainp, text);

	/* 1. the error sits in the sub-section 'limits', in inc.conf line 4 */
	put(incp, "# included\n\nlimits {\n  max = notanumber\n}\n");
	cfg = mkcfg();
	ndiag = 0;
	rc = cfg_parse(cfg, mainp);
	bad |= check("error in inc.conf:4, inside 'limits { }' (included from within 'server { }')", rc, incp, 4);
	cfg_free(cfg);

	/* 2. control: same included file, error directly in the including section */
	put(incp, "# included\n\nlimits {\n}\nport = notanumber\n");
	cfg = mkcfg();
	ndiag = 0;
	rc = cfg_parse(cfg, mainp);
	if (check("control: error in inc.conf:5, directly in the including section", rc, incp, 5))
		bad = 1;
	cfg_free(cfg);

	return bad ? 1 : 0;
}
