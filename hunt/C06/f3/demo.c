/*
 * C06 / f3: when a section is opened in one file and closed in another
 * (a section body that crosses an include boundary - the parser accepts
 * this), errors reported afterwards name the wrong file.
 *
 * Case A (included file opens the section, the including file closes it):
 *   main.conf:  1  include("<dir>/inc.conf")
 *               2    port = 2
 *               3  }
 *               4
 *               5  top = notanumber        <-- the error, main.conf:5
 *   inc.conf:   1  server {
 *               2    port = 1
 *
 * Case B (including file opens the section, the included file closes it):
 *   main.conf:  1  server {
 *               2  include("<dir>/inc.conf")
 *               3  top = 3
 *   inc.conf:   1  port = 1
 *               2  }
 *               3
 *               4
 *               5  top = notanumber        <-- the error, inc.conf:5
 *
 * usage: demo <scratch-dir>
 */
#include <stdio.h>
#include <stdlib.h>
#include <string.h>
#include <stdarg.h>
#include "confuse.h"

static int ndiag;
static char got_file[1024];
static int got_line;
static char got_msg[512];

static void errfn(cfg_t *cfg, const char *fmt, va_list ap)
{
	if (ndiag++ == 0) {
		vsnprintf(got_msg, sizeof(got_msg), fmt, ap);
		snprintf(got_file, sizeof(got_file), "%s", cfg->filename ? cfg->filename : "(null)");
		got_line = cfg->line;
	}
}

static cfg_t *mkcfg(void)
{
	static cfg_opt_t server_opts[] = {
		CFG_INT("port", 0, CFGF_NONE),
		CFG_FUNC("include", cfg_include),
		CFG_END()
	};
	static cfg_opt_t opts[] = {
		CFG_INT("top", 0, CFGF_NONE),
		CFG_SEC("server", server_opts, CFGF_MULTI),
		CFG_FUNC("include", cfg_include),
		CFG_END()
	};
	cfg_t *cfg = cfg_init(opts, CFGF_NONE);

	if (!cfg)
		exit(99);
	cfg_set_error_function(cfg, errfn);
	return cfg;
}

static void put(const char *path, const char *text)
{
	FILE *fp = fopen(path, "w");

	if (!fp)
		exit(99);
	fputs(text, fp);
	fclose(fp);
}

static int check(const char *what, int rc, const char *exp_file, int exp_line)
{
	int bad = 0;

	printf("%s\n", what);
	printf("  expected: rc=%d (CFG_PARSE_ERROR), >=1 diagnostic, file=\"%s\", line=%d\n",
	       CFG_PARSE_ERROR, exp_file, exp_line);
	printf("  got     : rc=%d, %d diagnostic(s), file=\"%s\", line=%d, message=\"%s\"\n",
	       rc, ndiag, got_file, got_line, got_msg);
	if (rc != CFG_PARSE_ERROR || ndiag < 1 || strcmp(got_file, exp_file) != 0 || got_line != exp_line)
		bad = 1;
	printf("  => %s\n", bad ? "VIOLATION" : "ok");
	return bad;
}

int main(int argc, char **argv)
{
	char mainp[900], incp[900], text[2048];
	cfg_t *cfg;
	int rc, bad = 0;

	if (argc < 2) {
		fprintf(stderr, "usage: %s <scratch-dir>\n", argv[0]);
		return 99;
	}
	snprintf(mainp, sizeof(mainp), "%s/main.conf", argv[1]);
	snprintf(incp, sizeof(incp), "%s/inc.conf", argv[1]);

	/* sanity: both layouts are accepted silently when they contain no error */
	snprintf(text, sizeof(text), "include(\"%s\")\n  port = 2\n}\n\ntop = 5\n", incp);
	put(mainp, text);
	put(incp, "server {\n  port = 1\n");
	cfg = mkcfg();
	ndiag = 0;
	rc = cfg_parse(cfg, mainp);
	printf("layout A without an error: rc=%d, %d diagnostic(s) (expected 0, 0)\n", rc, ndiag);
	if (rc != CFG_SUCCESS || ndiag != 0)
		printf("  (layout A is not accepted by this tree, case A is moot)\n");
	cfg_free(cfg);

	/* Case A */
	snprintf(text, sizeof(text), "include(\"%s\")\n  port = 2\n}\n\ntop = notanumber\n", incp);
	put(mainp, text);
	put(incp, "server {\n  port = 1\n");
	cfg = mkcfg();
	ndiag = 0;
	rc = cfg_parse(cfg, mainp);
	bad |= check("case A: error in main.conf:5, after a section opened in inc.conf was closed in main.conf",
		     rc, mainp, 5);
	cfg_free(cfg);

	/* Case B */
	snprintf(text, sizeof(text), "server {\ninclude(\"%s\")\ntop = 3\n", incp);
	put(mainp, text);
	put(incp, "port = 1\n}\n\n\ntop = notanumber\n");
	cfg = mkcfg();
	ndiag = 0;
	rc = cfg_parse(cfg, mainp);
	bad |= check("case B: error in inc.conf:5, after a section opened in main.conf was closed in inc.conf",
		     rc, incp, 5);
	cfg_free(cfg);

	/* control: balanced include, error after it in the including file */
	snprintf(text, sizeof(text), "server {\ninclude(\"%s\")\n}\n\ntop = notanumber\n", incp);
	put(mainp, text);
	put(incp, "port = 1\n\n\n");
	cfg = mkcfg();
	ndiag = 0;
	rc = cfg_parse(cfg, mainp);
	if (check("control: balanced include, error in main.conf:5", rc, mainp, 5))
		bad = 1;
	cfg_free(cfg);

	return bad ? 1 : 0;
}
