#!/bin/sh
# run_demo.sh <tree-root> : exit 0 iff the property held
set -u
ROOT=${1:?usage: run_demo.sh <tree-root>}
ROOT=$(cd "$ROOT" && pwd) || exit 2
HERE=$(cd "$(dirname "$0")" && pwd)
TMP=$(mktemp -d) || exit 2
trap 'rm -rf "$TMP"' EXIT INT TERM

if [ ! -f "$ROOT/src/lexer.c" ] || [ ! -f "$ROOT/config.h" ]; then
	(cd "$ROOT" && make -j4 >/dev/null 2>&1)
fi

gcc -g -O0 -w -fsanitize=address,undefined -DHAVE_CONFIG_H -DLOCALEDIR='"/x"' \
	-I"$ROOT" -I"$ROOT/src" "$HERE/demo.c" "$ROOT/src/confuse.c" "$ROOT/src/lexer.c" \
	-o "$TMP/demo" || { echo "build failed"; exit 2; }

mkdir "$TMP/work"
"$TMP/demo" "$TMP/work"
rc=$?
echo "demo exit status: $rc"
exit $rc
