/*
 * C06 / f1: a diagnostic raised inside a plain (non-CFGF_MULTI) section is
 * delivered with a context whose filename is NULL: the error names no file
 * or buffer at all (and the default reporter then prints neither file nor line).
 *
 * usage: demo <scratch-dir>
 */
#include <stdio.h>
#include <stdlib.h>
#include <string.h>
#include <stdarg.h>
#include "confuse.h"

static int ndiag;
static char got_file[1024];
static int got_file_null;
static int got_line;
static char got_msg[512];

static void errfn(cfg_t *cfg, const char *fmt, va_list ap)
{
	if (ndiag++ == 0) {
		vsnprintf(got_msg, sizeof(got_msg), fmt, ap);
		got_file_null = cfg->filename == NULL;
		snprintf(got_file, sizeof(got_file), "%s", cfg->filename ? cfg->filename : "(null)");
		got_line = cfg->line;
	}
}

static cfg_t *mkcfg(void)
{
	static cfg_opt_t sec_opts[] = {
		CFG_INT("a", 0, CFGF_NONE),
		CFG_END()
	};
	static cfg_opt_t opts[] = {
		CFG_INT("x", 0, CFGF_NONE),
		CFG_SEC("sec", sec_opts, CFGF_NONE),	/* ordinary single section */
		CFG_END()
	};
	cfg_t *cfg = cfg_init(opts, CFGF_NONE);

	if (!cfg)
		exit(99);
	cfg_set_error_function(cfg, errfn);
	return cfg;
}

static int check(const char *what, int rc, const char *exp_file, int exp_line)
{
	int bad = 0;

	printf("%s\n", what);
	printf("  expected: rc=%d (CFG_PARSE_ERROR), >=1 diagnostic, file=\"%s\", line=%d\n",
	       CFG_PARSE_ERROR, exp_file, exp_line);
	printf("  got     : rc=%d, %d diagnostic(s), file=%s%s%s, line=%d, message=\"%s\"\n",
	       rc, ndiag, got_file_null ? "" : "\"", got_file, got_file_null ? "" : "\"", got_line, got_msg);
	if (rc != CFG_PARSE_ERROR || ndiag < 1)
		bad = 1;
	if (got_file_null || strcmp(got_file, exp_file) != 0)
		bad = 1;
	if (got_line != exp_line)
		bad = 1;
	printf("  => %s\n", bad ? "VIOLATION" : "ok");
	return bad;
}

int main(int argc, char **argv)
{
	const char *text = "x = 1\nsec {\n  a = notanumber\n}\n";
	char path[900];
	cfg_t *cfg;
	FILE *fp;
	int rc, bad = 0;

	if (argc < 2) {
		fprintf(stderr, "usage: %s <scratch-dir>\n", argv[0]);
		return 99;
	}

	/* 1. from a buffer */
	cfg = mkcfg();
	ndiag = 0;
	rc = cfg_parse_buf(cfg, text);
	bad |= check("cfg_parse_buf(): bad value on line 3, inside 'sec { }'", rc, "[buf]", 3);
	cfg_free(cfg);

	/* 2. from a file */
	snprintf(path, sizeof(path), "%s/main.conf", argv[1]);
	fp = fopen(path, "w");
	if (!fp)
		return 99;
	fputs(text, fp);
	fclose(fp);

	cfg = mkcfg();
	ndiag = 0;
	rc = cfg_parse(cfg, path);
	bad |= check("cfg_parse(): bad value on line 3, inside 'sec { }'", rc, path, 3);
	cfg_free(cfg);

	/* 3. control: the same error outside the section is attributed correctly */
	cfg = mkcfg();
	ndiag = 0;
	rc = cfg_parse_buf(cfg, "sec {\n}\nx = notanumber\n");
	if (check("control: bad value on line 3, outside the section", rc, "[buf]", 3))
		printf("  (control failed too)\n"), bad = 1;
	cfg_free(cfg);

	return bad ? 1 : 0;
}
