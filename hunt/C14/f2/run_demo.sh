#!/bin/sh
# usage: run_demo.sh <tree-root>
# exit 0 iff the property held
set -u
ROOT=${1:?usage: run_demo.sh <tree-root>}
ROOT=$(cd "$ROOT" && pwd) || exit 99
HERE=$(cd "$(dirname "$0")" && pwd)
TMP=$(mktemp -d) || exit 99
trap 'rm -rf "$TMP"' EXIT INT TERM

# lexer.c and config.h are generated files
if [ ! -f "$ROOT/src/lexer.c" ] || [ ! -f "$ROOT/config.h" ]; then
    (cd "$ROOT" && make -j4 >/dev/null 2>&1)
fi

# compile the library sources directly with the sanitizers;
# fall back to the static library the tree's own build produced
if ! gcc -g -O0 -w -fsanitize=address,undefined \
        -DHAVE_CONFIG_H -DLOCALEDIR='"/x"' -I"$ROOT" -I"$ROOT/src" \
        "$HERE/demo.c" "$ROOT/src/confuse.c" "$ROOT/src/lexer.c" \
        -o "$TMP/demo" 2>"$TMP/build.log"; then
    if ! gcc -g -O0 -w -I"$ROOT/src" "$HERE/demo.c" "$ROOT/src/.libs/libconfuse.a" \
            -o "$TMP/demo" 2>>"$TMP/build.log"; then
        cat "$TMP/build.log" >&2
        echo "run_demo.sh: cannot build the demo" >&2
        exit 98
    fi
fi

cd "$TMP" || exit 99
ASAN_OPTIONS=detect_leaks=0 ./demo
rc=$?
echo "demo exit status: $rc"
exit $rc
