/*
 * C14 / finding 2: a callback that returns non-zero while the parser creates a
 * section instance (the callbacks are run over the declared default values of
 * the new instance) does not make the parse fail - the process is abort()ed
 * from inside cfg_parse_buf().
 *
 * For every k the k-th callback invocation of one parse is made to fail, each
 * in a forked child.  Expected for every k: cfg_parse_buf() returns
 * CFG_PARSE_ERROR and "after" was not applied.
 *
 * exit 0: property held, exit 1: violated
 */
#include <stdio.h>
#include <stdlib.h>
#include <string.h>
#include <signal.h>
#include <unistd.h>
#include <sys/wait.h>
#include "confuse.h"

static int calls, failat;
static int trace;

static void quiet(cfg_t *cfg, const char *fmt, va_list ap)
{
	(void)cfg; (void)fmt; (void)ap;
}

static int parse_port(cfg_t *cfg, cfg_opt_t *opt, const char *value, void *result)
{
	calls++;
	if (trace)
		printf("    #%d parse callback    %s '%s'\n", calls, cfg_opt_name(opt), value);
	if (calls == failat) {
		cfg_error(cfg, "refused by parse callback");
		return -1;
	}
	*(long int *)result = atol(value);
	return 0;
}

static int validate_ports(cfg_t *cfg, cfg_opt_t *opt)
{
	calls++;
	if (trace)
		printf("    #%d validate callback %s (%u values)\n", calls, cfg_opt_name(opt), cfg_opt_size(opt));
	if (calls == failat) {
		cfg_error(cfg, "refused by validation callback");
		return -1;
	}
	return 0;
}

static const char *text = "server web { ports += {8080} }\nafter = 7\n";

/* returns the number of callback invocations; *rc and *after report the parse */
static int run(int k, int *rc, long *after)
{
	cfg_opt_t server_opts[] = {
		CFG_INT_LIST_CB("ports", "{80, 443}", CFGF_NONE, parse_port),
		CFG_END()
	};
	cfg_opt_t opts[] = {
		CFG_SEC("server", server_opts, CFGF_MULTI | CFGF_TITLE),
		CFG_INT("after", 0, CFGF_NONE),
		CFG_END()
	};
	cfg_t *cfg = cfg_init(opts, CFGF_NONE);

	cfg_set_error_function(cfg, quiet);
	cfg_set_validate_func(cfg, "server|ports", validate_ports);

	calls = 0;
	failat = k;
	*rc = cfg_parse_buf(cfg, text);
	*after = cfg_getint(cfg, "after");
	cfg_free(cfg);
	return calls;
}

int main(void)
{
	int n, k, rc, bad = 0;
	long after;

	/* keep abort() quiet in the children */
	fclose(stderr);

	printf("text: %s", text);
	printf("callback trace of an undisturbed parse:\n");
	trace = 1;
	n = run(0, &rc, &after);
	trace = 0;
	printf("  -> rc=%d, %d callback invocations, after=%ld\n", rc, n, after);
	fflush(stdout);

	for (k = 1; k <= n; k++) {
		int status;
		pid_t pid = fork();

		if (pid == 0) {
			int made = run(k, &rc, &after);

			/* 0: failed cleanly at k, 3: anything else */
			_exit(rc == CFG_PARSE_ERROR && made == k && after == 0 ? 0 : 3);
		}
		waitpid(pid, &status, 0);
		if (WIFSIGNALED(status)) {
			printf("k=%d: expected cfg_parse_buf() == CFG_PARSE_ERROR, got: process killed by signal %d (%s) inside cfg_parse_buf()\n",
			       k, WTERMSIG(status), WTERMSIG(status) == SIGABRT ? "SIGABRT" : "?");
			bad = 1;
		} else if (WEXITSTATUS(status) != 0) {
			printf("k=%d: expected a parse failure at invocation k with no later item applied, got something else\n", k);
			bad = 1;
		} else {
			printf("k=%d: ok, parse failed at invocation %d, 'after' not applied\n", k, k);
		}
		fflush(stdout);
	}

	printf(bad ? "RESULT: property violated\n" : "RESULT: property held\n");
	return bad;
}
