/*
 * C14 / finding 1: a validation callback registered by schema path on an
 * option of a single (non-CFGF_MULTI) section is lost when that section is
 * removed and created again by the next parse.
 *
 * exit 0: property held, exit 1: violated
 */
#include <stdio.h>
#include <string.h>
#include "confuse.h"

static int v_calls;	/* invocations of the parse-time validation callback */
static int v2_calls;	/* invocations of the pre-set validation callback */

static void quiet(cfg_t *cfg, const char *fmt, va_list ap)
{
	(void)cfg; (void)fmt; (void)ap;
}

/* "max" must not be negative */
static int validate_max(cfg_t *cfg, cfg_opt_t *opt)
{
	v_calls++;
	if (cfg_opt_getnint(opt, 0) < 0) {
		cfg_error(cfg, "max must not be negative");
		return -1;
	}
	return 0;
}

static int validate2_max(cfg_t *cfg, cfg_opt_t *opt, void *value)
{
	(void)cfg; (void)opt;
	v2_calls++;
	return *(long int *)value < 0 ? -1 : 0;
}

int main(void)
{
	cfg_opt_t limits_opts[] = {
		CFG_INT("max", 10, CFGF_NONE),
		CFG_END()
	};
	cfg_opt_t opts[] = {
		CFG_SEC("limits", limits_opts, CFGF_NONE),
		CFG_INT("after", 0, CFGF_NONE),
		CFG_END()
	};
	cfg_t *cfg = cfg_init(opts, CFGF_NONE);
	int bad = 0, rc;

	cfg_set_error_function(cfg, quiet);

	/* registration by schema path */
	cfg_set_validate_func(cfg, "limits|max", validate_max);
	cfg_set_validate_func2(cfg, "limits|max", validate2_max);

	/* 1. sanity: the callback runs and is obeyed */
	v_calls = 0;
	rc = cfg_parse_buf(cfg, "limits { max = 5 }\n");
	printf("parse #1 'limits { max = 5 }'             : rc=%d, validcb calls=%d, max=%ld\n",
	       rc, v_calls, cfg_getint(cfg, "limits|max"));
	if (rc != CFG_SUCCESS || v_calls != 1) {
		printf("  unexpected: the baseline does not work\n");
		return 2;
	}

	/* 2. remove the section, the next parse creates it again */
	rc = cfg_rmsec(cfg, "limits");
	printf("cfg_rmsec(cfg, \"limits\")                  : rc=%d\n", rc);

	v_calls = 0;
	rc = cfg_parse_buf(cfg, "limits { max = -1 }\nafter = 7\n");
	printf("parse #2 'limits { max = -1 } after = 7'  : rc=%d, validcb calls=%d, max=%ld, after=%ld\n",
	       rc, v_calls, cfg_getint(cfg, "limits|max"), cfg_getint(cfg, "after"));
	printf("  expected: rc=%d (CFG_PARSE_ERROR), validcb calls=1, after=0 (later item not applied)\n",
	       CFG_PARSE_ERROR);
	if (rc == CFG_SUCCESS || v_calls != 1 || cfg_getint(cfg, "after") != 0) {
		printf("  VIOLATION: the value -1 was stored and the registered validation callback never ran\n");
		bad = 1;
	}

	/* 3. same loss for the pre-set validation callback of the by-name setters */
	v2_calls = 0;
	rc = cfg_setint(cfg, "limits|max", -5);
	printf("cfg_setint(cfg, \"limits|max\", -5)         : rc=%d, validcb2 calls=%d, max=%ld\n",
	       rc, v2_calls, cfg_getint(cfg, "limits|max"));
	printf("  expected: rc=%d (vetoed), validcb2 calls=1, max unchanged\n", CFG_FAIL);
	if (rc == CFG_SUCCESS || v2_calls != 1) {
		printf("  VIOLATION: the pre-set validation callback could not veto the by-name setter\n");
		bad = 1;
	}

	cfg_free(cfg);
	printf(bad ? "RESULT: property violated\n" : "RESULT: property held\n");
	return bad;
}
