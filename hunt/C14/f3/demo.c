/*
 * C14 / finding 3: a pre-set validation callback (cfg_set_validate_func2) can
 * neither veto nor rewrite the values of the by-name setters cfg_setmulti(),
 * cfg_setlist() and cfg_addlist(): they never invoke it.
 *
 * exit 0: property held, exit 1: violated
 */
#include <stdio.h>
#include <string.h>
#include "confuse.h"

static int v2_calls;

static void quiet(cfg_t *cfg, const char *fmt, va_list ap)
{
	(void)cfg; (void)fmt; (void)ap;
}

/* a port must not be negative (veto) and is clamped to 65535 (rewrite) */
static int validate2_port(cfg_t *cfg, cfg_opt_t *opt, void *value)
{
	long int *port = value;

	(void)cfg; (void)opt;
	v2_calls++;
	if (*port < 0)
		return -1;
	if (*port > 65535)
		*port = 65535;
	return 0;
}

static int check(const char *what, int rc, int want_fail, long got, long want)
{
	int ok = (want_fail ? rc != CFG_SUCCESS : rc == CFG_SUCCESS) && v2_calls >= 1 && got == want;

	printf("%-44s: rc=%d, validcb2 calls=%d, stored=%ld\n", what, rc, v2_calls, got);
	printf("    expected: %s, validcb2 calls>=1, stored=%ld  -> %s\n",
	       want_fail ? "rc!=0 (vetoed)" : "rc=0", want, ok ? "ok" : "VIOLATION");
	v2_calls = 0;
	return !ok;
}

int main(void)
{
	cfg_opt_t opts[] = {
		CFG_INT("port", 80, CFGF_NONE),
		CFG_INT_LIST("ports", "{80}", CFGF_NONE),
		CFG_END()
	};
	char *neg[] = { "-1" };
	char *big[] = { "70000" };
	cfg_t *cfg = cfg_init(opts, CFGF_NONE);
	int bad = 0, rc;

	cfg_set_error_function(cfg, quiet);
	cfg_set_validate_func2(cfg, "port", validate2_port);
	cfg_set_validate_func2(cfg, "ports", validate2_port);

	printf("-- baseline: the by-name setters the callback is wired into\n");
	rc = cfg_setint(cfg, "port", -1);
	if (check("cfg_setint(cfg, \"port\", -1)", rc, 1, cfg_getint(cfg, "port"), 80))
		return 2;
	rc = cfg_setint(cfg, "port", 70000);
	if (check("cfg_setint(cfg, \"port\", 70000)", rc, 0, cfg_getint(cfg, "port"), 65535))
		return 2;
	rc = cfg_setnint(cfg, "ports", -1, 0);
	if (check("cfg_setnint(cfg, \"ports\", -1, 0)", rc, 1, cfg_getnint(cfg, "ports", 0), 80))
		return 2;
	cfg_setint(cfg, "port", 80);
	v2_calls = 0;

	printf("-- the other by-name setters\n");
	rc = cfg_setmulti(cfg, "port", 1, neg);
	bad |= check("cfg_setmulti(cfg, \"port\", 1, {\"-1\"})", rc, 1, cfg_getint(cfg, "port"), 80);
	cfg_setint(cfg, "port", 80);
	v2_calls = 0;

	rc = cfg_setmulti(cfg, "port", 1, big);
	bad |= check("cfg_setmulti(cfg, \"port\", 1, {\"70000\"})", rc, 0, cfg_getint(cfg, "port"), 65535);

	rc = cfg_setlist(cfg, "ports", 1, -1);
	bad |= check("cfg_setlist(cfg, \"ports\", 1, -1)", rc, 1,
		     cfg_size(cfg, "ports") ? cfg_getnint(cfg, "ports", 0) : 80, 80);

	rc = cfg_setlist(cfg, "ports", 1, 70000);
	bad |= check("cfg_setlist(cfg, \"ports\", 1, 70000)", rc, 0, cfg_getnint(cfg, "ports", 0), 65535);

	cfg_setlist(cfg, "ports", 1, 80);
	v2_calls = 0;
	rc = cfg_addlist(cfg, "ports", 1, -1);
	bad |= check("cfg_addlist(cfg, \"ports\", 1, -1)", rc, 1, (long)cfg_size(cfg, "ports"), 1);

	cfg_free(cfg);
	printf(bad ? "RESULT: property violated\n" : "RESULT: property held\n");
	return bad;
}
