/*
 * C02 finding 2: freeing ANY top-level context while another parse is running
 * destroys the one global scanner ("parse from a callback").
 *
 * A validate callback checks the value it was handed with a private, short
 * lived context: cfg_init() / cfg_parse_buf() / cfg_free().  The nested parse
 * itself is supported by the library (buffer stack, fp comparison in the
 * <<EOF>> rule), but cfg_free() of the private context unconditionally calls
 * cfg_yylex_destroy(), which deletes every buffer on the scanner's stack,
 * including the one the outer, still running, parse reads from.  The outer
 * parser then re-initialises the scanner on the PROCESS' stdin.
 */
#include <stdio.h>
#include <stdlib.h>
#include <string.h>
#include <unistd.h>
#include <signal.h>
#include "confuse.h"

static void quiet(cfg_t *cfg, const char *fmt, va_list ap)
{
	(void)cfg;
	fprintf(stderr, "  [libconfuse] ");
	vfprintf(stderr, fmt, ap);
	fprintf(stderr, "\n");
}

static void on_alarm(int sig)
{
	static const char msg[] = "VIOLATION: parser blocked reading the process' stdin (hang)\n";
	(void)sig;
	if (write(2, msg, sizeof msg - 1)) {}
	_exit(3);
}

/* validate "expr": it must itself be a well-formed "n = <int>" text */
static int validate_expr(cfg_t *cfg, cfg_opt_t *opt)
{
	cfg_opt_t o[] = { CFG_INT("n", 0, CFGF_NONE), CFG_END() };
	cfg_t *tmp = cfg_init(o, CFGF_NONE);
	int rc;

	(void)cfg;
	if (!tmp)
		return -1;
	cfg_set_error_function(tmp, quiet);
	rc = cfg_parse_buf(tmp, cfg_opt_getstr(opt));
	cfg_free(tmp);		/* <- destroys the scanner of the outer parse */
	return rc == CFG_SUCCESS ? 0 : -1;
}

int main(void)
{
	cfg_opt_t opts[] = {
		CFG_STR("expr", "n = 0", CFGF_NONE),
		CFG_INT("i", 1, CFGF_NONE),
		CFG_END()
	};
	const char *text = "expr = \"n = 3\"\ni = 7\n";
	cfg_t *cfg;
	int fds[2], rc, bad = 0;
	long i;

	/* our own stdin: text the parser was never given */
	if (pipe(fds) != 0)
		return 99;
	{
		static const char stdin_text[] = "i = 4343\n";
		if (write(fds[1], stdin_text, sizeof stdin_text - 1) < 0)
			return 99;
		close(fds[1]);
	}
	dup2(fds[0], 0);
	close(fds[0]);
	signal(SIGALRM, on_alarm);
	alarm(8);

	cfg = cfg_init(opts, CFGF_NONE);
	if (!cfg)
		return 99;
	cfg_set_error_function(cfg, quiet);
	cfg_set_validate_func(cfg, "expr", validate_expr);

	rc = cfg_parse_buf(cfg, text);
	i = cfg_getint(cfg, "i");
	printf("text given to the parser:\n%s", text);
	printf("expected rc=0 (CFG_SUCCESS), expr=\"n = 3\", i=7\n");
	printf("got      rc=%d, expr=\"%s\", i=%ld\n", rc, cfg_getstr(cfg, "expr"), i);
	if (rc != CFG_SUCCESS || i != 7) {
		printf("VIOLATION: the rest of the buffer was dropped, the process' stdin was parsed instead\n");
		bad = 1;
	}
	cfg_free(cfg);

	printf(bad ? "RESULT: property C02 VIOLATED\n" : "RESULT: property C02 holds\n");
	return bad;
}
