/*
 * C02 finding 1: a schema that has a section option called "root" makes the
 * parser destroy its own scanner in the middle of a parse.
 *
 * cfg_free() decides "this is the top-level context" by comparing cfg->name
 * with the string "root" and then calls cfg_yylex_destroy().  A *section*
 * whose option name is "root" passes that test as well.  Sections are freed
 * while a parse is running (CFGF_DROP, a repeated title of a
 * CFGF_MULTI|CFGF_TITLE section), so plain input text frees the flex buffer
 * that holds the text being parsed.
 *
 * Part A (no sanitizer needed): after the scanner was destroyed the next
 *   cfg_yylex() re-initialises itself on the PROCESS' stdin: the rest of the
 *   given buffer is never read, bytes that were never given to the parser are
 *   parsed instead (and the process blocks if stdin is a terminal/open pipe).
 * Part B: with CFGF_DEPRECATED|CFGF_DROP the token text of the item that
 *   follows the section is read from the freed scanner buffer
 *   (heap-use-after-free in cfg_getopt_secidx(), reported by ASan/valgrind).
 */
#include <stdio.h>
#include <stdlib.h>
#include <string.h>
#include <unistd.h>
#include <signal.h>
#include "confuse.h"

static void quiet(cfg_t *cfg, const char *fmt, va_list ap)
{
	(void)cfg;
	fprintf(stderr, "  [libconfuse] ");
	vfprintf(stderr, fmt, ap);
	fprintf(stderr, "\n");
}

static void on_alarm(int sig)
{
	static const char msg[] = "VIOLATION: parser blocked reading the process' stdin (hang)\n";
	(void)sig;
	if (write(2, msg, sizeof msg - 1)) {}
	_exit(3);
}

int main(void)
{
	int bad = 0;
	int fds[2];

	/* our own stdin: a pipe that holds text the parser was never given */
	if (pipe(fds) != 0)
		return 99;
	{
		static const char stdin_text[] = "x = 4242 }\ni = 4343\n";
		if (write(fds[1], stdin_text, sizeof stdin_text - 1) < 0)
			return 99;
		close(fds[1]);
	}
	dup2(fds[0], 0);
	close(fds[0]);
	signal(SIGALRM, on_alarm);
	alarm(8);

	/* ---------- Part A: repeated title of a multi titled section ---------- */
	{
		cfg_opt_t sub[] = { CFG_INT("x", 0, CFGF_NONE), CFG_END() };
		cfg_opt_t opts[] = {
			CFG_INT("i", 1, CFGF_NONE),
			CFG_SEC("root", sub, CFGF_MULTI | CFGF_TITLE),
			CFG_END()
		};
		cfg_t *cfg = cfg_init(opts, CFGF_NONE), *sec;
		const char *text = "root a { x = 1 }\nroot a { x = 2 }\ni = 7\n";
		int rc;
		long x, i;

		if (!cfg)
			return 99;
		cfg_set_error_function(cfg, quiet);
		rc = cfg_parse_buf(cfg, text);
		sec = cfg_gettsec(cfg, "root", "a");
		x = sec ? cfg_getint(sec, "x") : -1;
		i = cfg_getint(cfg, "i");
		printf("A: text given to the parser:\n%s", text);
		printf("A: expected rc=0 (CFG_SUCCESS), root 'a'.x=2, i=7\n");
		printf("A: got      rc=%d, root 'a'.x=%ld, i=%ld\n", rc, x, i);
		if (rc != CFG_SUCCESS || x != 2 || i != 7) {
			printf("A: VIOLATION: the parser dropped its input buffer and parsed the process' stdin instead\n");
			bad = 1;
		}
		/* "afterwards the context is still usable" */
		rc = cfg_parse_buf(cfg, "i = 9\n");
		if (rc != CFG_SUCCESS || cfg_getint(cfg, "i") != 9) {
			printf("A: VIOLATION: re-parse failed, rc=%d\n", rc);
			bad = 1;
		}
		cfg_free(cfg);
	}

	/* ---------- Part B: dropped deprecated section ---------- */
	{
		cfg_opt_t sub[] = { CFG_INT("x", 0, CFGF_NONE), CFG_END() };
		cfg_opt_t opts[] = {
			CFG_INT("i", 1, CFGF_NONE),
			CFG_SEC("root", sub, CFGF_DEPRECATED | CFGF_DROP),
			CFG_END()
		};
		cfg_t *cfg = cfg_init(opts, CFGF_NONE);
		const char *text = "root { x = 1 }\ni = 7\n";
		int rc;

		if (!cfg)
			return 99;
		cfg_set_error_function(cfg, quiet);
		fflush(stdout);
		/* under ASan this aborts: heap-use-after-free in cfg_getopt_secidx() */
		rc = cfg_parse_buf(cfg, text);
		printf("B: text given to the parser:\n%s", text);
		printf("B: expected rc=0, i=7; got rc=%d, i=%ld\n", rc, cfg_getint(cfg, "i"));
		if (rc != CFG_SUCCESS || cfg_getint(cfg, "i") != 7) {
			printf("B: VIOLATION: the text after the dropped section was lost\n");
			bad = 1;
		}
		cfg_free(cfg);
	}

	printf(bad ? "RESULT: property C02 VIOLATED\n" : "RESULT: property C02 holds\n");
	return bad ? 1 : 0;
}
