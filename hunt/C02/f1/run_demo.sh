#!/bin/sh
# usage: run_demo.sh <tree-root>     exit 0 iff the property held
set -u
ROOT=${1:?usage: run_demo.sh <tree-root>}
HERE=$(cd "$(dirname "$0")" && pwd)
TMP=$(mktemp -d) || exit 99
trap 'rm -rf "$TMP"' EXIT INT TERM

if [ ! -f "$ROOT/src/lexer.c" ]; then
	(cd "$ROOT/src" && flex -Pcfg_yy -olexer.c lexer.l) >/dev/null 2>&1 || \
		(cd "$ROOT" && make -j4 >/dev/null 2>&1)
fi
[ -f "$ROOT/src/lexer.c" ] || { echo "cannot generate $ROOT/src/lexer.c"; exit 99; }

gcc -g -O0 -w -fsanitize=address,undefined -fno-sanitize=nonnull-attribute \
	-DHAVE_CONFIG_H -DLOCALEDIR='"/x"' -I"$ROOT" -I"$ROOT/src" \
	"$HERE/demo.c" "$ROOT/src/confuse.c" "$ROOT/src/lexer.c" -o "$TMP/demo" || exit 99

cd "$TMP" || exit 99
ASAN_OPTIONS=detect_leaks=0 ./demo </dev/null
rc=$?
echo "demo exit status: $rc"
[ "$rc" -eq 0 ]
