/*
 * C12 / finding 2: with CFGF_IGNORE_UNKNOWN (and CFGF_COMMENTS), inserting a
 * well-formed unknown item between two items changes the parse result: the
 * annotation (comment) that the following known option ends up with is lost.
 *
 * exit 0: property held, exit 1: property violated.
 */
#include <stdio.h>
#include <stdlib.h>
#include <string.h>
#include <stdarg.h>
#include "confuse.h"

static int ndiag;

static void errf(cfg_t *cfg, const char *fmt, va_list ap)
{
	(void)cfg;
	ndiag++;
	fprintf(stderr, "diagnostic: ");
	vfprintf(stderr, fmt, ap);
	fprintf(stderr, "\n");
}

static int fn(cfg_t *cfg, cfg_opt_t *opt, int argc, const char **argv)
{
	(void)cfg; (void)opt; (void)argc; (void)argv;
	return 0;
}

/* parse text, return rc; *dump = cfg_print() output, *ca = strdup of comment of option "a" (or NULL) */
static int run(const char *text, char **dump, char **ca)
{
	cfg_opt_t sub[] = {
		CFG_INT("x", 1, CFGF_NONE),
		CFG_END()
	};
	cfg_opt_t opts[] = {
		CFG_SEC("s", sub, CFGF_NONE),
		CFG_FUNC("f", fn),
		CFG_INT_LIST("l", 0, CFGF_NODEFAULT),
		CFG_INT("a", 0, CFGF_NONE),
		CFG_END()
	};
	cfg_t *cfg = cfg_init(opts, CFGF_IGNORE_UNKNOWN | CFGF_COMMENTS);
	size_t len = 0;
	const char *c;
	FILE *fp;
	int rc;

	cfg_set_error_function(cfg, errf);
	rc = cfg_parse_buf(cfg, text);
	*dump = NULL;
	fp = open_memstream(dump, &len);
	cfg_print(cfg, fp);
	fclose(fp);
	c = cfg_opt_getcomment(cfg_getopt(cfg, "a"));
	*ca = c ? strdup(c) : NULL;
	cfg_free(cfg);
	return rc;
}

static int check(const char *what, const char *base, const char *inserted)
{
	char *d0, *d1, *c0, *c1;
	int rc0, rc1, nd0, nd1, bad;

	ndiag = 0;
	rc0 = run(base, &d0, &c0);
	nd0 = ndiag;
	ndiag = 0;
	rc1 = run(inserted, &d1, &c1);
	nd1 = ndiag;

	bad = rc0 != rc1 || nd0 != nd1 || strcmp(d0, d1) != 0 ||
	      (c0 == NULL) != (c1 == NULL) || (c0 && strcmp(c0, c1) != 0);

	printf("--- %s\n", what);
	printf("base text    : rc=%d diagnostics=%d comment(a)=%s%s%s\n", rc0, nd0,
	       c0 ? "\"" : "", c0 ? c0 : "NULL", c0 ? "\"" : "");
	printf("with unknown : rc=%d diagnostics=%d comment(a)=%s%s%s\n", rc1, nd1,
	       c1 ? "\"" : "", c1 ? c1 : "NULL", c1 ? "\"" : "");
	printf("expected identical result; got %s\n", bad ? "DIFFERENT result -> VIOLATION" : "identical result");
	if (bad && strcmp(d0, d1) != 0)
		printf("cfg_print() of base text:\n%scfg_print() with the unknown item inserted:\n%s", d0, d1);
	free(d0); free(d1); free(c0); free(c1);
	return bad;
}

int main(void)
{
	int bad = 0;

	/* the unknown item is inserted between the two items "s { }" and "a = 1" */
	bad |= check("unknown assignment between a section and a scalar",
		     "# note\n" "s { x = 2 }\n" "a = 1\n",
		     "# note\n" "s { x = 2 }\n" "unk = 5\n" "a = 1\n");

	bad |= check("unknown (empty) section between a function call and a scalar",
		     "# note\n" "f(1)\n" "a = 1\n",
		     "# note\n" "f(1)\n" "unk { }\n" "a = 1\n");

	bad |= check("unknown function call between an empty list and a scalar",
		     "# note\n" "l = {}\n" "a = 1\n",
		     "# note\n" "l = {}\n" "unk(1, 2)\n" "a = 1\n");

	printf(bad ? "RESULT: property C12 violated\n" : "RESULT: property C12 held\n");
	return bad;
}
