/*
 * C12 / finding 1: an unknown section whose content is nested deeper than
 * 1000 levels is NOT skipped under CFGF_IGNORE_UNKNOWN: the parse is
 * rejected with the diagnostic "sections nested too deeply".
 *
 * exit 0: property held, exit 1: property violated.
 */
#include <stdio.h>
#include <stdlib.h>
#include <string.h>
#include <stdarg.h>
#include "confuse.h"

static int ndiag;
static char lastdiag[256];

static void errf(cfg_t *cfg, const char *fmt, va_list ap)
{
	(void)cfg;
	ndiag++;
	vsnprintf(lastdiag, sizeof(lastdiag), fmt, ap);
}

/* "a = 1\n" + depth x "u { " + "x = 1 " + depth x "}" + "\nb = 2\n"; depth 0: no insertion */
static char *make_text(int depth)
{
	char *t = malloc((size_t)depth * 5 + 64), *p = t;
	int k;

	p += sprintf(p, "a = 1\n");
	for (k = 0; k < depth; k++)
		p += sprintf(p, "u { ");
	if (depth)
		p += sprintf(p, "x = 1 ");
	for (k = 0; k < depth; k++)
		*p++ = '}';
	sprintf(p, "\nb = 2\n");
	return t;
}

static int run(int depth, int flag, long *a, long *b)
{
	cfg_opt_t opts[] = {
		CFG_INT("a", 0, CFGF_NONE),
		CFG_INT("b", 0, CFGF_NONE),
		CFG_END()
	};
	char *text = make_text(depth);
	cfg_t *cfg = cfg_init(opts, flag ? CFGF_IGNORE_UNKNOWN : CFGF_NONE);
	int rc;

	cfg_set_error_function(cfg, errf);
	ndiag = 0;
	lastdiag[0] = 0;
	rc = cfg_parse_buf(cfg, text);
	*a = cfg_getint(cfg, "a");
	*b = cfg_getint(cfg, "b");
	cfg_free(cfg);
	free(text);
	return rc;
}

int main(void)
{
	static const int depths[] = { 1, 10, 1000, 1001, 2000, 100000 };
	long a0, b0, a, b;
	int rc0, rc, bad = 0;
	unsigned i;

	rc0 = run(0, 1, &a0, &b0);
	printf("base text 'a = 1 / b = 2' with CFGF_IGNORE_UNKNOWN: rc=%d diagnostics=%d a=%ld b=%ld\n",
	       rc0, ndiag, a0, b0);
	if (rc0 != CFG_SUCCESS || ndiag) {
		printf("unexpected: base text not accepted\n");
		return 2;
	}

	for (i = 0; i < sizeof(depths) / sizeof(depths[0]); i++) {
		int d = depths[i];

		rc = run(d, 1, &a, &b);
		printf("unknown section nested %6d deep inserted between a and b: "
		       "expected rc=0 diagnostics=0 a=%ld b=%ld, got rc=%d diagnostics=%d a=%ld b=%ld%s%s%s\n",
		       d, a0, b0, rc, ndiag, a, b, ndiag ? " (\"" : "", lastdiag, ndiag ? "\")" : "");
		if (rc != rc0 || ndiag != 0 || a != a0 || b != b0) {
			printf("  -> VIOLATION: the well-formed unknown section was not skipped cleanly\n");
			bad = 1;
		}

		/* second sentence of the statement: without the flag a diagnostic is required */
		rc = run(d, 0, &a, &b);
		if (rc == CFG_SUCCESS || ndiag == 0) {
			printf("  -> VIOLATION: without the flag depth %d gave rc=%d diagnostics=%d\n", d, rc, ndiag);
			bad = 1;
		}
	}

	printf(bad ? "RESULT: property C12 violated\n" : "RESULT: property C12 held\n");
	return bad;
}
