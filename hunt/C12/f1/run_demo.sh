#!/bin/sh
# usage: run_demo.sh <tree-root>   -- exits 0 iff the property held
set -u
ROOT=${1:?usage: run_demo.sh <tree-root>}
ROOT=$(cd "$ROOT" && pwd) || exit 2
HERE=$(cd "$(dirname "$0")" && pwd)
TMP=$(mktemp -d) || exit 2
trap 'rm -rf "$TMP"' EXIT INT TERM

if [ -f "$ROOT/src/.libs/libconfuse.a" ]; then
	gcc -g -O1 -I"$ROOT/src" "$HERE/demo.c" "$ROOT/src/.libs/libconfuse.a" -o "$TMP/demo" || exit 2
else
	LEX="$ROOT/src/lexer.c"
	if [ ! -f "$LEX" ]; then
		flex -Pcfg_yy -o "$TMP/lexer.c" "$ROOT/src/lexer.l" || exit 2
		LEX="$TMP/lexer.c"
	fi
	gcc -g -O1 -w -DHAVE_CONFIG_H -DLOCALEDIR='"/x"' -I"$ROOT" -I"$ROOT/src" \
		"$HERE/demo.c" "$ROOT/src/confuse.c" "$LEX" -o "$TMP/demo" || exit 2
fi

cd "$TMP" && ./demo
