/* libc_models.h - environment models used under CBMC only (trusted base, see DESIGN 3.4).
 * Natively (replay) none of this is compiled and the real libc is used.
 * Include AFTER the system headers and BEFORE the code under test is not required:
 * these are plain definitions of the external functions.
 */
#ifndef LIBC_MODELS_H
#define LIBC_MODELS_H
#ifdef __CPROVER__

#include <errno.h>
#include <limits.h>
#include <stdlib.h>
#include <string.h>

#ifndef VM_MAXSTR
#define VM_MAXSTR 16 /* longest string any byte-loop model walks; --unwind must exceed it */
#endif

char *dgettext(const char *domain, const char *msgid)
{
	(void)domain;
	return (char *)msgid;
}
char *bindtextdomain(const char *d, const char *dir)
{
	(void)d;
	return (char *)dir;
}

static int vm_isspace(int c)
{
	return c == ' ' || c == '\t' || c == '\n' || c == '\v' || c == '\f' || c == '\r';
}
static int vm_tolower(int c)
{
	return (c >= 'A' && c <= 'Z') ? c + 32 : c;
}
#ifndef VM_NO_CTYPE
int isspace(int c) { return vm_isspace(c); }
int tolower(int c) { return vm_tolower(c); }
#endif

#ifndef VM_NO_STRCASECMP
int strcasecmp(const char *a, const char *b)
{
	size_t i = 0;

	while (1) {
		int ca = vm_tolower((unsigned char)a[i]);
		int cb = vm_tolower((unsigned char)b[i]);

		if (ca != cb)
			return ca < cb ? -1 : 1;
		if (!ca)
			return 0;
		i++;
	}
}
#endif

char *strstr(const char *hay, const char *needle)
{
	size_t i, j;

	for (i = 0;; i++) {
		for (j = 0; needle[j] && hay[i + j] == needle[j]; j++)
			;
		if (!needle[j])
			return (char *)hay + i;
		if (!hay[i])
			return (char *)0;
	}
}

size_t strcspn(const char *s, const char *reject)
{
	size_t i = 0;

	while (s[i]) {
		size_t j = 0;

		while (reject[j]) {
			if (reject[j] == s[i])
				return i;
			j++;
		}
		i++;
	}
	return i;
}

size_t strspn(const char *s, const char *accept)
{
	size_t i = 0;

	while (s[i]) {
		size_t j = 0;
		int hit = 0;

		while (accept[j]) {
			if (accept[j] == s[i])
				hit = 1;
			j++;
		}
		if (!hit)
			return i;
		i++;
	}
	return i;
}

#ifndef VM_NO_STRNDUP
char *strndup(const char *s, size_t n)
{
	size_t l = 0;
	char *r;

	while (l < n && s[l])
		l++;
	r = malloc(l + 1);
	if (!r)
		return NULL;
	for (size_t i = 0; i < l; i++)
		r[i] = s[i];
	r[l] = 0;
	return r;
}
#endif

/* ISO C / glibc 2.36 strtol: optional white space, optional sign, "0x"/"0X" only when a
 * hex digit follows (base 0 or 16), base 0 => leading 0 selects octal; no binary prefix;
 * overflow => LONG_MAX/LONG_MIN and errno = ERANGE; errno is NEVER cleared. */
static int vm_digit(int c)
{
	if (c >= '0' && c <= '9')
		return c - '0';
	if (c >= 'a' && c <= 'z')
		return c - 'a' + 10;
	if (c >= 'A' && c <= 'Z')
		return c - 'A' + 10;
	return 99;
}
#ifndef VM_NO_STRTOL
long strtol(const char *nptr, char **endptr, int base)
{
	const char *s = nptr;
	int neg = 0, any = 0, over = 0;
	unsigned long acc = 0, cutoff;
	int cutlim;

	while (vm_isspace((unsigned char)*s))
		s++;
	if (*s == '-') {
		neg = 1;
		s++;
	} else if (*s == '+') {
		s++;
	}
	if ((base == 0 || base == 16) && s[0] == '0' && (s[1] == 'x' || s[1] == 'X') && vm_digit((unsigned char)s[2]) < 16) {
		s += 2;
		base = 16;
	} else if (base == 0) {
		base = (s[0] == '0') ? 8 : 10;
	}
	cutoff = neg ? (unsigned long)LONG_MAX + 1UL : (unsigned long)LONG_MAX;
	cutlim = (int)(cutoff % (unsigned long)base);
	cutoff /= (unsigned long)base;
	while (1) {
		int d = vm_digit((unsigned char)*s);

		if (d >= base)
			break;
		if (over || acc > cutoff || (acc == cutoff && d > cutlim)) {
			over = 1;
		} else {
			acc = acc * (unsigned long)base + (unsigned long)d;
		}
		any = 1;
		s++;
	}
	if (endptr)
		*endptr = (char *)(any ? s : nptr);
	if (over) {
		errno = ERANGE;
		return neg ? LONG_MIN : LONG_MAX;
	}
	return neg ? (long)(0UL - acc) : (long)acc;
}
#endif

#ifdef VM_STRTOD_CONTRACT
/* strtod as a contract: any end pointer inside the string, any value, optional range error */
double strtod(const char *nptr, char **endptr)
{
	size_t len = 0, k;
	int range;
	double v;

	while (nptr[len])
		len++;
	k = nondet_ulong();
	__CPROVER_assume(k <= len);
	if (endptr)
		*endptr = (char *)nptr + k;
	range = nondet_int();
	if (range)
		errno = ERANGE;
	v = nondet_double();
	return k == 0 ? 0.0 : v;
}
#endif

#endif /* __CPROVER__ */
#endif
