/* verif.h - conventions shared by every harness.
 *
 * Under CBMC (__CPROVER__) symbolic inputs come from nondet_*() and land in variables
 * whose names start with vin_ (the runner extracts them from the counterexample trace).
 * Compiled natively (gcc -fsanitize=address,undefined) the same harness becomes the
 * *replay driver*: the vin_ values are read from the file named by $VERIF_REPLAY, the
 * libc models are replaced by the real libc, and V_ASSERT failures exit with status 1.
 */
#ifndef VERIF_H
#define VERIF_H

#include <stddef.h>
#include <limits.h>
#include <errno.h>

/* harnesses that drive the parser hook define this before including verif.h */
#ifndef LIBCONFUSE_VERIF_PARSE_STEP
#define LIBCONFUSE_VERIF_PARSE_STEP() ((void)0)
#endif

#ifdef __CPROVER__

int nondet_int(void);
unsigned int nondet_uint(void);
long nondet_long(void);
unsigned long nondet_ulong(void);
unsigned char nondet_uchar(void);
char nondet_char(void);
_Bool nondet_bool(void);
double nondet_double(void);
void *nondet_ptr(void);

#define V_ASSUME(c) __CPROVER_assume(c)
#define V_ASSERT(c, msg) __CPROVER_assert((c), msg)
/* reachability witness: MUST be reported as FAILURE, otherwise the obligation is vacuous */
#define V_WITNESS(msg) __CPROVER_assert(0, "WITNESS " msg)
#define V_CUT() __CPROVER_assume(0)
#define V_R_OK(p, n) __CPROVER_r_ok((p), (n))
#define V_W_OK(p, n) __CPROVER_w_ok((p), (n))

#define V_IN_INT(name) int name = nondet_int()
#define V_IN_UINT(name) unsigned int name = nondet_uint()
#define V_IN_LONG(name) long name = nondet_long()
#define V_IN_BOOL(name) int name = nondet_bool() ? 1 : 0
#define V_IN_UCHAR(name) unsigned char name = nondet_uchar()
#define V_IN_DOUBLE(name) double name = nondet_double()
#define V_SET_INT(name) ((name) = nondet_int())
/* a symbolic NUL-terminated byte string of at most n bytes in buf[n+1] */
#define V_IN_STR(name, n)                                                    \
	char name[(n) + 1];                                                  \
	do {                                                                 \
		for (int v_i_ = 0; v_i_ < (n); v_i_++)                       \
			name[v_i_] = nondet_char();                          \
		name[(n)] = 0;                                               \
	} while (0)
#define V_FILL_STR(name, n)                                                  \
	do {                                                                 \
		for (int v_i_ = 0; v_i_ < (n); v_i_++)                       \
			(name)[v_i_] = nondet_char();                        \
		(name)[(n)] = 0;                                             \
	} while (0)
/* element `idx` of an array of strings (the replay key is built from the run-time index) */
#define V_FILL_STR_AT(base, idx, n) V_FILL_STR((base)[idx], n)

#else /* native replay */
#define V_XSTR_(x) #x
#define V_XSTR(x) V_XSTR_(x) /* expands macro arguments (renamed inputs) before stringifying */

#include <stdio.h>
#include <stdlib.h>
#include <string.h>

static int v_lookup(const char *name, long long *out)
{
	static char *text;
	char key[128];
	char *p;

	if (!text) {
		const char *fn = getenv("VERIF_REPLAY");
		FILE *fp = fn ? fopen(fn, "r") : NULL;
		size_t n;

		text = calloc(1, 1 << 20);
		if (fp) {
			n = fread(text + 1, 1, (1 << 20) - 2, fp);
			(void)n;
			fclose(fp);
		}
		text[0] = '\n';
	}
	snprintf(key, sizeof(key), "\n%s ", name);
	p = strstr(text, key);
	if (!p)
		return 0;
	*out = strtoll(p + strlen(key), NULL, 0);
	return 1;
}
static long long v_get(const char *name)
{
	long long v = 0;
	/* an input declared inside a loop: the k-th call gets the k-th recorded value (name#k) if there is one */
	static struct { const char *name; int calls; } cnt[64];
	char key[160];
	int i;

	for (i = 0; i < 64 && cnt[i].name && strcmp(cnt[i].name, name) != 0; i++)
		;
	if (i < 64) {
		cnt[i].name = name;
		snprintf(key, sizeof(key), "%s#%d", name, cnt[i].calls++);
		if (v_lookup(key, &v))
			return v;
	}
	if (!v_lookup(name, &v))
		fprintf(stderr, "replay: no value for %s, using 0\n", name);
	return v;
}
static double v_getd(const char *name)
{
	long long v = v_get(name);
	double d;

	memcpy(&d, &v, sizeof(d));
	return d;
}
static void v_fill(const char *name, char *buf, int n)
{
	char key[160];

	for (int i = 0; i < n; i++) {
		long long v = 0;

		snprintf(key, sizeof(key), "%s[%d]", name, i);
		v_lookup(key, &v);
		buf[i] = (char)v;
	}
	buf[n] = 0;
}
extern void *__asan_region_is_poisoned(void *beg, size_t size);
#ifdef __SANITIZE_ADDRESS__
#define V_R_OK(p, n) ((p) != NULL && __asan_region_is_poisoned((void *)(p), (n)) == NULL)
#else
#define V_R_OK(p, n) ((p) != NULL)
#endif
#define V_W_OK(p, n) V_R_OK(p, n)
#define V_ASSUME(c)                                                          \
	do {                                                                 \
		if (!(c)) {                                                  \
			fprintf(stderr, "replay: assumption failed: %s\n", #c); \
			exit(77);                                            \
		}                                                            \
	} while (0)
#define V_ASSERT(c, msg)                                                     \
	do {                                                                 \
		if (!(c)) {                                                  \
			fprintf(stderr, "REPLAY-ASSERT-FAILED: %s\n", msg);  \
			fflush(stderr);                                      \
			_Exit(1);                                            \
		}                                                            \
	} while (0)
#define V_WITNESS(msg) do { } while (0)
#define V_CUT() do { fflush(stderr); _Exit(0); } while (0)
#define V_IN_INT(name) int name = (int)v_get(V_XSTR(name))
#define V_IN_UINT(name) unsigned int name = (unsigned int)v_get(V_XSTR(name))
#define V_IN_LONG(name) long name = (long)v_get(V_XSTR(name))
#define V_IN_BOOL(name) int name = v_get(V_XSTR(name)) ? 1 : 0
#define V_IN_UCHAR(name) unsigned char name = (unsigned char)v_get(V_XSTR(name))
#define V_IN_DOUBLE(name) double name = v_getd(V_XSTR(name))
#define V_SET_INT(name) ((name) = (int)v_get(V_XSTR(name)))
#define V_IN_STR(name, n) char name[(n) + 1]; v_fill(V_XSTR(name), name, (n))
#define V_FILL_STR(name, n) v_fill(V_XSTR(name), name, (n))
#define V_FILL_STR_AT(base, idx, n)                                          \
	do {                                                                 \
		char v_key_[96];                                             \
		snprintf(v_key_, sizeof(v_key_), "%s[%d]", V_XSTR(base), (int)(idx)); \
		v_fill(v_key_, (base)[idx], (n));                            \
	} while (0)

#endif

#endif
