/* native replay only: weak fall-backs for the scanner entry points confuse.c refers to.
 * A harness that supplies its own (stub or flattened) scanner overrides them. */
#include <stdio.h>
#include <stdlib.h>
struct cfg_t;
#define WEAK __attribute__((weak))
WEAK int cfg_yylex(struct cfg_t *cfg) { (void)cfg; fprintf(stderr, "replay: cfg_yylex not provided\n"); exit(78); }
WEAK void cfg_yylex_destroy(void) { }
WEAK int cfg_lexer_include(struct cfg_t *cfg, const char *f) { (void)cfg; (void)f; fprintf(stderr, "replay: cfg_lexer_include not provided\n"); exit(78); }
WEAK void cfg_scan_fp_begin(FILE *fp) { (void)fp; fprintf(stderr, "replay: cfg_scan_fp_begin not provided\n"); exit(78); }
WEAK void cfg_scan_fp_end(void) { fprintf(stderr, "replay: cfg_scan_fp_end not provided\n"); exit(78); }
